"""
W2 - lifecycle world (C13, C14, C15, C33).  DESIGN.md section 3/W2 and 4.

One run: a generated world, a schedule, recording callbacks on every rule,
user classes built by a per-run factory.  A fault-free *census* load (fresh
metamodel E1) counts the crossings of every callback site and carries the
success-path oracles (C13, C14/1).  Then, depending on the focused property, a
second fresh environment E2 is loaded with one injected fault (input
corruption, k-th callback raising, unresolvable reference) and/or a nested
re-entrant load, followed by the quiescence oracles (C14/2, C15) and a
recovery load that must equal the census (C15/3).
"""

import dataclasses
import decimal
import gc
import os
import weakref
from collections import Counter

import textx  # noqa
from textx import metamodel_from_file, metamodel_from_str
from textx.exceptions import TextXError, TextXSemanticError
from textx.model import get_model, textxerror_wrap
import textx.scoping.providers as sp
from textx.scoping import ModelLoader

from ..core import Budget
from ..dump import dump_error, dump_model
from ..gen import gen_world, grammar, grammar_files, linecol, walk_model
from ..seams import SIMFS
from .w1_resolve import ScriptedProvider, Scheduler, base_provider, draw_schedule, fixpoint

ATTRS = {
    "Model": ["imports", "items"],
    "Def": ["name", "v", "tag"],
    "Box": ["name", "items"],
    "Use": ["name", "refs", "one", "opt", "alt", "more"],
    "Wrap": ["inner", "e"],      # container of a *scalar* containment attribute
    "Inner": ["name"],           # contained through a scalar attribute (parent = the Wrap)
    "Import": ["importURI"],
}
COMMON = ["Model", "Import", "Def", "Box", "Use", "Wrap", "Inner"]
ABSTRACT = ["Item"]
MATCH = ["Tag", "QN", "INT", "ID"]
DUNDERS = ("__setattr__", "__delattr__", "__getattribute__", "__getattr__")
MISSING = "<missing>"


class Repl:
    """Replacement value returned by a replacing object processor."""

    def __init__(self, key):
        self.key = key

    def __repr__(self):
        return f"Repl({self.key})"


class Injected(Exception):
    pass


def make_exc(kind):
    if kind == "tx":
        return TextXSemanticError("injected")
    if kind == "txloc":
        return TextXError("injected", line=77, col=88, nchar=99, filename="sentinel.file")
    if kind == "txloc-sem":
        # the same through a subclass (its constructor has to forward every location field)
        return TextXSemanticError("injected", line=77, col=88, nchar=99, filename="sentinel.file")
    if kind == "txpartial":
        # the typical TextXSemanticError(msg, line=..., col=...): file name and nchar are still to be filled
        return TextXSemanticError("injected", line=77, col=88)
    if kind in ("val", "valwrap"):
        return ValueError("injected")
    if kind == "key":
        return KeyError("injected")
    if kind == "kbd":
        # Ctrl-C arriving inside a callback: unwinds the stack like any exception, the caller may catch it and go on
        return KeyboardInterrupt()
    if kind == "cancel":
        return Cancelled("injected")
    if kind == "fnf-wrap":
        # exceptions that bring a file name / line number of their own (of something else than the model)
        return FileNotFoundError(2, "No such file or directory", "/nowhere/payload.csv")
    if kind == "syntaxerr-wrap":
        return SyntaxError("invalid syntax", ("<embedded>", 7, 3, "x ="))
    raise AssertionError(kind)


class Cancelled(BaseException):
    """an application-defined abort that is deliberately not an Exception (like asyncio.CancelledError)"""


# ---------------------------------------------------------------------------
# user class factory
# ---------------------------------------------------------------------------

VARIANTS = ["plain", "slots", "frozen", "dataclass", "dataclass-frozen", "own-dunders", "inherited-dunders", "value-eq",
            "falsy"]


def make_class(name, variant, rec):
    attrs = ATTRS[name]
    fields = (["parent"] if name != "Model" else []) + attrs

    def note_new(o):
        rec.on_new(o)

    def note_init(o, kw):
        rec.on_init(o, name, kw)

    if variant in ("dataclass", "dataclass-frozen"):
        def post(self):
            note_init(self, {f: getattr(self, f) for f in fields})

        def new(cls, *a, **k):
            o = object.__new__(cls)
            note_new(o)
            return o

        c = dataclasses.make_dataclass(
            name, [(f, object) for f in fields], frozen=(variant == "dataclass-frozen"), eq=False,
            namespace={"__post_init__": post, "__new__": new},
        )
        return c

    counters = Counter()

    class Base:
        pass

    ns = {}

    def __new__(cls, *a, **k):
        o = object.__new__(cls)
        note_new(o)
        return o

    ns["__new__"] = __new__
    if variant == "slots":
        ns["__slots__"] = tuple(fields) + ("__weakref__",)

        def __init__(self, **kw):
            note_init(self, kw)
            for k, v in kw.items():
                setattr(self, k, v)
    elif variant == "frozen":
        def __init__(self, **kw):
            note_init(self, kw)
            for k, v in kw.items():
                object.__setattr__(self, k, v)
            object.__setattr__(self, "_frozen", True)

        def __setattr__(self, k, v):
            if self.__dict__.get("_frozen"):
                raise AttributeError("frozen")
            object.__setattr__(self, k, v)

        ns["__setattr__"] = __setattr__
    elif variant in ("own-dunders", "inherited-dunders"):
        def __init__(self, **kw):
            note_init(self, kw)
            for k, v in kw.items():
                setattr(self, k, v)

        def __setattr__(self, k, v):
            counters["set"] += 1
            if k == "v" and type(v) is int:
                v = v % 7  # the class's own rule for this attribute: its effect is visible in every finished model
            object.__setattr__(self, k, v)

        def __delattr__(self, k):
            counters["del"] += 1
            object.__delattr__(self, k)

        def __getattribute__(self, k):
            counters["get"] += 1
            return object.__getattribute__(self, k)

        tgt = ns if variant == "own-dunders" else None
        if tgt is None:
            Base.__setattr__ = __setattr__
            Base.__delattr__ = __delattr__
            Base.__getattribute__ = __getattribute__
        else:
            ns["__setattr__"] = __setattr__
            ns["__delattr__"] = __delattr__
            ns["__getattribute__"] = __getattribute__
    else:
        def __init__(self, **kw):
            note_init(self, kw)
            for k, v in kw.items():
                setattr(self, k, v)
        if variant == "falsy":
            # a container-like class whose instances are false in a boolean context (an empty collection): a model
            # object is an object, whatever bool() says about it
            ns["__len__"] = lambda self: 0
        if variant == "value-eq":
            # value semantics: all instances compare equal (a model may legitimately hold several equal objects);
            # whatever textX does with a model object has to go by identity
            ns["__eq__"] = lambda self, other: type(other) is type(self)
            ns["__hash__"] = lambda self: hash(type(self).__name__)
    ns["__init__"] = __init__
    bases = (Base,) if variant == "inherited-dunders" else ()
    c = type(name, bases, ns)
    c._counters = counters
    return c


def class_snapshot(classes):
    return {c.__name__: {d: c.__dict__.get(d, MISSING) for d in DUNDERS} for c in classes}


# ---------------------------------------------------------------------------
# recorder: every callback crossing goes through here
# ---------------------------------------------------------------------------


class Rec:
    def __init__(self, ctx, tag, strong):
        self.ctx = ctx
        self.tag = tag
        self.strong = strong
        self.depth = 0
        self.seq = []  # (kind, data...) at depth 0, indices are the order oracle
        self.counts = Counter()
        self.fault = None  # (site, k, exckind)
        self.nest = None  # (site, k, variant)
        self.fault_fired = None
        self.nest_done = None
        self.news = []  # weakrefs of user objects seen by __new__ (all depths)
        self.tok = {}  # id -> (token, ref)
        self.ntok = 0
        self.inits = []  # (seqidx, depth, token, clsname, kwkeys, kw or None)
        self.parsed = []  # (file, [(ref, rule, parentref, attr)...])
        self.matchcalls = []  # (rule, value) at depth 0 in order
        self.objprocs = []  # (seqidx, rule, objref/key)
        self.env = None
        self.replace_rules = set()
        self.replaced = []  # (rule, token/objkey, repl)
        self.nested_outcomes = []
        self.last_obj = None
        self.fault_site_info = None
        self.pos_by_id = {}  # id(obj) -> (file, start, end) taken at parse time
        self.repl_kinds = ["obj"]
        self.repl_partial = False  # replace only some objects of the rule (chosen by offset), keep their siblings

    # -- object identity without strong references
    def ref(self, o):
        try:
            return weakref.ref(o)
        except TypeError:
            return lambda: None

    def token(self, o):
        e = self.tok.get(id(o))
        if e is not None and e[1]() is o:
            return e[0]
        t = self.ntok
        self.ntok += 1
        self.tok[id(o)] = (t, self.ref(o))
        return t

    def ev(self, kind, *data):
        self.ctx.ev(self.tag, self.depth, kind, *data)
        if self.depth == 0:
            self.seq.append((kind,) + data)
        return len(self.seq) - 1

    # -- crossing: nested load and fault injection
    def cross(self, site):
        if self.depth != 0:
            return
        self.counts[site] += 1
        n = self.counts[site]
        if self.nest is not None and self.nest[0] == site and self.nest[1] == n and self.nest_done is None:
            self.nest_done = self.env.nested_load(self.nest[2])
        if self.fault is not None and self.fault[0] == site and self.fault[1] == n and self.fault_fired is None:
            self.fault_fired = (site, n, self.fault[2])
            if site == "objproc":
                self.fault_site_info = self.last_obj
            self.ctx.fired(site + "-raise")
            self.ev("FAULT", site, n, self.fault[2])
            raise make_exc(self.fault[2])

    # -- user class hooks
    def on_new(self, o):
        self.news.append(self.ref(o))
        t = self.token(o)
        self.ev("new", type(o).__name__, t)

    def on_init(self, o, clsname, kw):
        t = self.token(o)
        i = self.ev("init", clsname, t, sorted(kw))
        self.inits.append((i, self.depth, t, clsname, sorted(kw), dict(kw) if self.strong else None,
                           o if self.strong else None))
        self.cross("init")

    # -- model hooks
    def on_parsed(self, model):
        fn = getattr(model, "_tx_filename", None)
        if self.depth != 0:
            return
        self.ev("parsed", os.path.basename(fn) if fn else "<str>")
        objs = []
        for o in walk_model(model):
            par = o.__dict__.get("parent") if hasattr(o, "__dict__") else None
            if par is None:
                try:
                    par = getattr(o, "parent", None)
                except Exception:
                    par = None
            objs.append((self.ref(o), type(o).__name__, self.ref(par) if par is not None else None,
                         o._tx_position, o if self.strong else None))
            self.pos_by_id[id(o)] = (fn, o._tx_position, o._tx_position_end)
        self.parsed.append((fn, objs))


def okey(o):
    """Stable id of a model object: file, offset, class."""
    try:
        m = get_model(o)
        fn = getattr(m, "_tx_filename", None)
    except Exception:
        fn = "?"
    return (os.path.basename(fn) if fn else "<str>", getattr(o, "_tx_position", None), type(o).__name__)


# ---------------------------------------------------------------------------
# environment: one metamodel + classes + recorder
# ---------------------------------------------------------------------------


class Env:
    def __init__(self, ctx, tag, world, cfg, strong):
        self.ctx = ctx
        self.world = world
        self.cfg = cfg
        self.rec = Rec(ctx, tag, strong)
        self.rec.env = self
        self.rec.replace_rules = set(cfg["replace"])
        self.rec.repl_kinds = cfg.get("repl_kinds") or ["obj"]
        self.rec.repl_partial = bool(cfg.get("repl_partial"))
        self.sched = Scheduler(ctx, world, len(world.refs) + 2)
        self.def_spans = {(d.file, d.name): (d.start, d.stop) for d in world.defs}
        self.classes = [make_class(n, v, self.rec) for n, v in cfg["classes"]]
        kw = dict(textx_tools_support=cfg["tools"], memoization=cfg["memo"])
        if cfg["global_repo"]:
            kw["global_repository"] = True
        if self.classes:
            kw["classes"] = self.classes
        if cfg.get("earlier_variant") and not cfg["global_repo"] and not cfg.get("prim_root") and \
                any(n == "Box" and v in ("plain", "own-dunders", "inherited-dunders", "falsy", "value-eq")
                    for n, v in cfg["classes"]):
            # the same classes served an *earlier* metamodel of a slightly different language (the Box rule keeps its
            # children in `things`), and a model was loaded with it: whatever that left on the classes is stale now
            variant = grammar().replace("'{' items*=Item '}'", "'{' things*=Item '}'")
            self.rec.depth += 1
            try:
                mm0 = metamodel_from_str(variant, **kw)
                mm0.model_from_str("box q { def z box r { def y } }")
            finally:
                self.rec.depth -= 1
            ctx.probe("classes-used-by-an-earlier-metamodel-of-another-grammar")
        # optional: an abstract root rule with a match alternative - a model file may then be a plain number
        if cfg.get("grammar_files") and not cfg.get("prim_root"):
            # the language's grammar spread over several grammar files (main.tx -> mid.tx -> deep.tx)
            for gp, gt in grammar_files().items():
                SIMFS.files[gp] = gt
            self.mm = metamodel_from_file("/sim/g/main.tx", **kw)
        else:
            self.mm = metamodel_from_str(("Top: Model | INT;\n" if cfg.get("prim_root") else "") + grammar(), **kw)
        if cfg.get("built_twice") and self.classes and not cfg.get("grammar_files") and not cfg.get("prim_root") \
                and not cfg["global_repo"]:
            # the same user classes handed to a second metamodel of the same grammar, built later; the loads use the
            # first one (an application that builds its metamodel per request)
            self.mm_later = metamodel_from_str(grammar(), **kw)
        self.snapshot = class_snapshot(self.classes)
        rec = self.rec
        base = base_provider(cfg["family"])

        class Prov(ScriptedProvider):
            def __call__(s, obj, attr, obj_ref):
                if rec.depth > 0:
                    return s.base(obj, attr, obj_ref)
                rec.cross("prov")
                r = ScriptedProvider.__call__(s, obj, attr, obj_ref)
                return r

        self.prov = Prov(base, self.sched, ctx, on_parsed=rec.on_parsed)
        # the scripted provider logs with the scheduler; mirror into rec.seq
        orig_ev = ctx.ev
        self.mm.register_scope_providers({"*.*": self.prov})
        procs = {}
        for rule in cfg["procs"]:
            if rule in MATCH:
                procs[rule] = self._matchproc(rule)
            else:
                procs[rule] = self._objproc(rule)
        if cfg["wrap"]:
            procs = {k: textxerror_wrap(v) for k, v in procs.items()}
        self.mm_n = None
        if cfg.get("two_langs"):
            kw_n = dict(kw)
            if self.classes:
                kw_n["classes"] = self.classes_n = [make_class(n, v, self.rec) for n, v in cfg["classes"]]
            self.mm_n = metamodel_from_str(grammar(), **kw_n)
            self.mm_n.register_scope_providers({"*.*": self.prov})
            self.mm_n.register_obj_processors(procs)
            if cfg["modelproc"]:
                self.mm_n.register_model_processor(self._modelproc)
            textx.clear_language_registrations()
            textx.register_language("lang-m", pattern="*.m", metamodel=self.mm)
            textx.register_language("lang-n", pattern="*.n", metamodel=self.mm_n)
            self.ctx.probe("two-languages")
        if not (cfg.get("two_langs") and cfg.get("main_without_procs")):
            self.mm.register_obj_processors(procs)
        else:
            self.ctx.probe("main-language-without-object-processors")
        if cfg["modelproc"]:
            self.mm.register_model_processor(self._modelproc)

    def _matchproc(self, rule):
        rec = self.rec

        def proc(value):
            if rec.depth == 0:
                rec.matchcalls.append((rule, str(value)))
                rec.ev("matchproc", rule, str(value))
                rec.cross("matchproc")
            if rule == "INT":
                if value == "42" and rec.env.cfg.get("prim_root"):
                    # the whole model is this number: the processor may turn it into any immutable value
                    kind = rec.env.cfg.get("prim_root_kind", "int")
                    if kind == "decimal":
                        return decimal.Decimal(42)
                    if kind == "tuple":
                        return (42, "forty-two")
                    if kind == "frozenset":
                        return frozenset([42])
                return int(value)
            return value

        return proc

    def _objproc(self, rule):
        rec = self.rec

        def proc(obj):
            if rec.depth != 0:
                return None
            k = okey(obj)
            pi = rec.pos_by_id.get(id(obj))
            rec.last_obj = (pi[0], pi[1], pi[2] - pi[1]) if pi else None
            if pi and rule in ("Def", "Item") and type(obj).__name__ == "Def":
                # for definitions the expected location comes from the generator's own offsets (the text of the Def
                # rule, without the angle brackets of the `'<' Def '>'` alternative), not from the object's attributes
                ent = rec.env.def_spans.get((pi[0] or rec.env.world.main, getattr(obj, "name", None)))
                if ent is not None:
                    rec.last_obj = (pi[0], ent[0], ent[1] - ent[0])
            i = rec.ev("objproc", rule, k)
            rec.objprocs.append((i, rule, k, rec.ref(obj), obj if rec.strong else None))
            rec.cross("objproc")
            if rule in rec.replace_rules and rule != "Model" and not (rec.repl_partial and ((k[1] or 0) // 2) % 2):
                # replacement values include falsy ones (0, "", [], False): only None means "keep the object"
                kind = rec.repl_kinds[((k[1] or 0) + len(rule)) % len(rec.repl_kinds)]  # a function of the object, not of history
                r = {"obj": Repl(f"{rule}@{k[0]}:{k[1]}"), "zero": 0, "empty-str": "", "empty-list": [],
                     "false": False}[kind]
                rec.replaced.append((rule, id(obj), r))
                return r
            return None

        return proc

    def _modelproc(self, model, metamodel):
        rec = self.rec
        if rec.depth != 0:
            return
        fn = getattr(model, "_tx_filename", None)
        rec.ev("modelproc", os.path.basename(fn) if fn else "<str>")
        rec.cross("modelproc")

    def _precallback(self, model):
        rec = self.rec
        rec.ev("precallback")
        rec.on_parsed_str = True
        rec.cross("precallback")

    def nested_load(self, variant):
        """Re-entrant load with the same metamodel from inside a callback."""
        rec = self.rec
        kind, mode = variant
        text = {"ok": "def n0 def n1 use nu : n0, n1 one n1",
                "syntax": "def n0 % use nu : n0",
                "dangling": "def n0 use nu : n0, zz9"}[kind]
        rec.ev("nested-begin", kind, mode)
        self.ctx.fired("nested-load")
        rec.depth += 1
        out = None
        try:
            try:
                self.mm.model_from_str(text)
                out = "ok"
            except Exception as e:
                out = "error:" + type(e).__name__
                if mode == "propagate":
                    raise
        finally:
            rec.depth -= 1
            rec.ev("nested-end", out)
            rec.nested_outcomes.append(out)
        return out

    def load(self, as_string=False):
        w = self.world
        if as_string:
            return self.mm.model_from_str(w.files[w.main].text,
                                          pre_ref_resolution_callback=self._precallback if self.cfg["precb"] else None)
        return self.mm.model_from_file(w.main)


# ---------------------------------------------------------------------------
# oracles
# ---------------------------------------------------------------------------


def check_quiescence(ctx, env, where, prop_for_classes):
    """C14/2 (and C15/2): class dicts identical to the snapshot, no storage."""
    for c in env.classes:
        snap = env.snapshot[c.__name__]
        for d in DUNDERS:
            cur = c.__dict__.get(d, MISSING)
            if cur is not snap[d]:
                ctx.violate(prop_for_classes, "restored", where,
                            f"{c.__name__}.{d} is not the original after the load ({where})")
                break
        st = c.__dict__.get("_tx_obj_attrs", None)
        if st:
            ctx.violate(prop_for_classes, "storage-left", where,
                        f"{c.__name__}._tx_obj_attrs still holds {len(st)} per-object entries ({where})")
        if "_tx_instrumented" in c.__dict__ or any(k.startswith("_tx_real_") for k in c.__dict__):
            ctx.probe("inert-bookkeeping-left")


def check_c14_success(ctx, env, model, cfgcls):
    """C14/1 on a successful load (strong recorder)."""
    rec = env.rec
    w = env.world
    user_names = {n for n, _ in env.cfg["classes"]}
    if not user_names:
        return
    inits = [x for x in rec.inits if x[1] == 0]
    by_tok = Counter(x[2] for x in inits)
    # every user object of the closure: exactly one init
    objs = []
    for fn, lst in rec.parsed:
        for (r, rule, par, pos, strong) in lst:
            if rule in user_names:
                objs.append((fn, rule, pos, strong, par))
    for fn, rule, pos, o, par in objs:
        t = rec.token(o)
        if by_tok.get(t, 0) != 1:
            ctx.violate("C14", "init-once", cfgcls,
                        f"{rule}@{pos} initialised {by_tok.get(t, 0)} times")
            continue
        rec_i = next(x for x in inits if x[2] == t)
        want = sorted(ATTRS[rule] + ([] if rule == "Model" else ["parent"]))
        if rec_i[4] != want:
            ctx.violate("C14", "exact-keywords", cfgcls,
                        f"{rule}.__init__ got {rec_i[4]}, expected {want}")
            continue
        kw = rec_i[5]
        if rule != "Model" and kw.get("parent") is not (par() if par is not None else None):
            ctx.violate("C14", "exact-keywords", cfgcls + "/parent", f"{rule}@{pos}: parent argument is not the container")
        if rule == "Use":
            ent = next((u for u in w.uses if u.file == (fn or w.main) and u.start == pos), None)
            if ent is not None:
                _check_use_kwargs(ctx, env, ent, kw, cfgcls)
    unknown = [x for x in inits if x[2] not in {rec.token(o) for _, _, _, o, _ in objs}]
    if unknown:
        ctx.violate("C14", "init-once", cfgcls, f"__init__ ran for {len(unknown)} object(s) that are not in the model")
    # every init precedes every objproc
    if inits and rec.objprocs:
        if max(x[0] for x in inits) > min(x[0] for x in rec.objprocs):
            ctx.violate("C14", "init-before-processors", cfgcls, "an object processor ran before a user __init__")


def _target_obj(env, ent):
    """Real object of a generator entity, from the parsed snapshot (strong)."""
    for fn, lst in env.rec.parsed:
        if (fn or env.world.main) != ent.file:
            continue
        for (r, rule, par, pos, strong) in lst:
            if pos == ent.start and rule.lower() == ent.kind:
                return strong
    return None


def _check_use_kwargs(ctx, env, ent, kw, cfgcls):
    for la in ("refs", "more"):
        lst = [r for r in ent.refs if r.attr == la]
        exp = [_target_obj(env, r.target) for r in lst]
        got = kw.get(la)
        if not isinstance(got, list) or any(type(x).__name__ in ("ObjCrossRef", "Postponed") for x in got):
            ctx.violate("C14", "references-resolved", cfgcls, f"{ent.sid()}.__init__ {la} = {got!r}")
        elif sorted(map(id, got)) != sorted(map(id, exp)):
            ctx.violate("C14", "references-resolved", cfgcls,
                        f"{ent.sid()}.__init__ {la} = {[getattr(x, 'name', x) for x in got]}, "
                        f"expected (any order) {[getattr(x, 'name', x) for x in exp]}")
    for attr in ("one", "opt", "alt"):
        rr = [r for r in ent.refs if r.attr == attr]
        val = kw.get(attr)
        want = _target_obj(env, rr[0].target) if rr else None
        if val is not want:
            ctx.violate("C14", "references-resolved", cfgcls,
                        f"{ent.sid()}.__init__ {attr} = {val!r}, expected {getattr(want, 'name', None)}")


def check_c13(ctx, env, cfgcls):
    """C13 over the recorded history of one successful load (strong recorder)."""
    rec = env.rec
    all_procs = set(env.cfg["procs"])
    no_main = bool(env.cfg.get("two_langs") and env.cfg.get("main_without_procs"))

    def procs_of(fn):
        # each model is processed with the processors of its own language
        if no_main and not (fn or env.world.main).endswith(".n"):
            return set()
        return all_procs

    seq = rec.seq
    last_res = max([i for i, e in enumerate(seq) if e[0] == "prov-resolved"], default=-1)
    last_init = max([i for i, e in enumerate(seq) if e[0] == "init"], default=-1)
    first_proc = min([x[0] for x in rec.objprocs], default=None)
    if first_proc is not None:
        if first_proc < last_res:
            ctx.violate("C13", "after-all-resolved", cfgcls,
                        "an object processor ran before the last reference of the closure was resolved")
        if first_proc < last_init:
            ctx.violate("C13", "after-all-initialised", cfgcls,
                        "an object processor ran before the last user-class __init__ of the closure")
    calls = {}
    for (i, rule, k, r, o) in rec.objprocs:
        calls.setdefault(id(o), []).append((i, rule))
    objs = []
    for fn, lst in rec.parsed:
        for (r, rule, par, pos, o) in lst:
            objs.append((fn, rule, par() if par is not None else None, pos, o))
    idx_of = {}
    for fn, rule, par, pos, o in objs:
        procs = procs_of(fn)
        cl = calls.get(id(o), [])
        own = [i for i, ru in cl if ru == rule]
        if rule in procs and len(own) != 1:
            ctx.violate("C13", "once-per-object", cfgcls, f"processor {rule} ran {len(own)} times for {rule}@{pos}")
        in_items = par is not None and rule in ("Def", "Box", "Use", "Wrap")
        ab = [i for i, ru in cl if ru == "Item"]
        if "Item" in procs:
            if in_items and len(ab) != 1:
                ctx.violate("C13", "abstract-once", cfgcls, f"processor Item ran {len(ab)} times for {rule}@{pos}")
            if not in_items and ab:
                ctx.violate("C13", "abstract-once", cfgcls, f"processor Item ran for {rule}@{pos} which is not in items")
            if in_items and len(ab) == 1 and len(own) == 1 and ab[0] < own[0]:
                ctx.violate("C13", "abstract-after-own", cfgcls, f"Item processor ran before {rule} processor for {rule}@{pos}")
        idx_of[id(o)] = (min([i for i, _ in cl], default=None), max([i for i, _ in cl], default=None))
    # children before containers
    for fn, rule, par, pos, o in objs:
        if par is None:
            continue
        c = idx_of.get(id(o))
        p = idx_of.get(id(par))
        if c and p and c[1] is not None and p[0] is not None and c[1] > p[0]:
            ctx.violate("C13", "children-first", cfgcls,
                        f"{rule}@{pos} was processed after its container {type(par).__name__}")
    # replacement
    by_obj = {}
    for (rule, k, repl) in rec.replaced:
        by_obj.setdefault(k, {})[rule] = repl
    for fn, rule, par, pos, o in objs:
        if par is None:
            continue
        reps = by_obj.get(id(o))
        if not reps:
            continue
        want = reps[rule] if rule in reps else reps["Item"]  # the own rule's value wins; falsy values count
        # find the slot
        slot_vals = []
        if rule == "Inner":
            slot_vals = [par.__dict__.get("inner") if hasattr(par, "__dict__") else getattr(par, "inner")]
        elif rule == "Import":
            slot_vals = list(getattr(par, "imports"))
        else:
            slot_vals = list(getattr(par, "items"))
        if not any(v is want for v in slot_vals):
            ctx.violate("C13", "replacement", cfgcls + ("/own-wins" if len(reps) > 1 else ""),
                        f"{rule}@{pos}: processor returned {want!r} but the containing attribute does not hold it")
        elif any(v is o for v in slot_vals):
            ctx.violate("C13", "replacement", cfgcls, f"{rule}@{pos}: replaced object is still in the containing attribute")


# ---------------------------------------------------------------------------
# the run
# ---------------------------------------------------------------------------

CALLBACK_SITES = ["prov", "matchproc", "objproc", "modelproc", "init", "precallback"]
INPUT_FAULTS = ["syntax", "dangling", "never"]


def draw_cfg(t, prop, nfiles):
    fam_multi = ["plainuri", "fqnuri", "rrel"]
    family = t.pick(fam_multi + ["plain", "fqn"], "family") if nfiles == 1 else t.pick(fam_multi, "family")
    want_classes = prop == "C14" or t.chance(1, 2, "user-classes")
    classes = []
    if want_classes:
        names = [n for n in ATTRS if t.chance(1, 2, "cls-" + n)]
        if not names:
            names = [t.pick(list(ATTRS), "cls-one")]
        # the root object must accept textX's _tx_* bookkeeping attributes after
        # construction (a frozen/slots *root* class is not supported by textX:
        # _tx_parser/_tx_filename cannot be stored); C33 keeps to classes that
        # accept attributes, because the position of an object that rejects
        # them is lost (that is C06's domain, not claimed)
        open_variants = ["plain", "own-dunders", "inherited-dunders", "falsy", "value-eq"]
        # Import objects get `_tx_loaded_models` from the ImportURI providers and a Wrap gets its `inner` re-assigned
        # when a processor replaces the Inner: both need classes that accept attribute assignment after construction
        classes = [(n, t.pick(open_variants if (n in ("Model", "Import", "Wrap") or prop == "C33") else VARIANTS,
                              "variant"))
                   for n in names]
    allrules = COMMON + ABSTRACT + MATCH
    if prop in ("C13", "C33"):
        procs = list(allrules)
    else:
        procs = [r for r in allrules if t.chance(2, 3, "proc-" + r)]
    replace = [r for r in ("Def", "Wrap", "Inner", "Box", "Item", "Import") if r in procs and t.chance(1, 8, "repl-" + r)]
    return {
        "family": family,
        "classes": classes,
        "procs": procs,
        "replace": replace,
        "repl_kinds": [t.pick(["obj", "zero", "empty-str", "empty-list", "false"], "repl-kind") for _ in range(3)],
        "repl_partial": t.chance(1, 2, "replace-only-some"),
        "wrap": t.chance(1, 3, "wrap"),
        "modelproc": t.chance(2, 3, "modelproc"),
        "precb": t.chance(1, 2, "precb"),
        "tools": t.chance(1, 5, "tools"),
        "memo": t.chance(1, 5, "memo"),
        "global_repo": t.chance(1, 2 if prop == "C13" else 3, "global-repo"),
        "grammar_files": t.chance(1, 5, "grammar-in-several-files"),
        # (success path of C13 only: textX keeps `_tx_metamodel` on the class, so after a second metamodel has been
        # built with the same classes the clean-up of a *failed* load looks into the wrong metamodel's repository - a
        # limitation of sharing classes between metamodels, recorded in DESIGN.md section 6, not generated)
        "built_twice": prop == "C13" and t.chance(1, 6, "metamodel-built-twice-with-the-same-classes"),
        "earlier_variant": prop == "C13" and t.chance(1, 5, "classes-used-by-an-earlier-metamodel"),
        # two registered languages (files f<odd>.n belong to a second metamodel with processors of its own); the main
        # language may have no object processors at all
        "two_langs": prop == "C13" and family in ("plainuri", "fqnuri") and t.chance(1, 4, "two-languages"),
        "main_without_procs": t.chance(1, 2, "main-language-without-object-processors"),
        "prim_root": bool(classes) and t.chance(1, 8, "primitive-root-rule"),
        "prim_root_kind": t.pick(["int", "decimal", "tuple", "frozenset"], "primitive-root-kind"),
    }


def run(ctx):
    t = ctx.tape
    prop = ctx.prop
    nfiles = 1 + t.draw(3, "nfiles")
    cfg = draw_cfg(t, prop, nfiles)
    if cfg["family"] in ("plain", "fqn"):
        nfiles = 1
    if cfg["two_langs"] and (nfiles < 2 or cfg["grammar_files"] or cfg["prim_root"]):
        cfg["two_langs"] = False
    w = gen_world(t, "/sim/w2", nfiles=nfiles, qualified=cfg["family"] in ("fqnuri", "rrel", "fqn"),
                  max_refs=12, vals=True, alt_multipart=cfg["family"] == "rrel",
                  second_ext=".n" if cfg["two_langs"] else None)
    closure = w.closure()
    refs = [r for r in w.refs if r.owner.file in closure]
    mode = t.pick(["dag", "rounds", "eager", "dag"], "mode")
    draw_schedule(t, refs, mode)
    as_string = nfiles == 1 and not w.files[w.main].imports and t.chance(1, 3, "as-string")
    if cfg["replace"] and cfg["classes"]:
        # a replaced user object is legal, but keep the two dimensions apart
        pass
    w.line_end = t.pick([None, None, "\r\n", "\r"], "line-ends-of-the-files")
    w.install(SIMFS)
    cfgcls = cfg["family"] + ("/classes" if cfg["classes"] else "") + ("/multi" if nfiles > 1 else "")
    ctx.sample = {
        "family": cfg["family"], "classes": cfg["classes"], "procs": cfg["procs"], "replace": cfg["replace"],
        "mode": mode, "as_string": as_string, "global_repo": cfg["global_repo"],
        "files": {os.path.basename(p): fe.text for p, fe in w.files.items()},
        "plans": {r.key: r.plan for r in refs if r.plan != ("now",)},
    }

    # ---- census (fresh E1, strong recorder, no fault)
    e1 = Env(ctx, "census", w, cfg, strong=True)
    _mirror_resolved(ctx, e1)
    if cfg["prim_root"] and cfg["family"] not in ("plain", "fqn"):
        cfg["prim_root"] = False  # model-loading providers cannot take a primitive root (they need a model object)
        e1 = Env(ctx, "census", w, cfg, strong=True)
        _mirror_resolved(ctx, e1)
    if cfg["prim_root"] and cfg["prim_root_kind"] != "int" and ("INT" not in cfg["procs"] or cfg["tools"]):
        # without an INT processor the value stays an int.  With textx_tools_support textX crashes on a root that is an
        # immutable value but not an int/float/str/bool (it tries to store the position lists on it) - that crash is
        # no sentence of a claimed property (DESIGN.md section 6, "noticed"), so the combination is not generated
        cfg["prim_root_kind"] = "int"
    if cfg["prim_root"]:
        # a model that is just a number: the root is an int, no object carries the end of construction
        try:
            v = e1.mm.model_from_str("42")
            ctx.ev("primitive-root-load", repr(v))
            ctx.probe("primitive-root-model")
        except Exception as e:
            ctx.violate(prop, "census-fails", cfgcls + "/primitive-root", f"loading '42' failed: {dump_error(e)}")
            return
        check_quiescence(ctx, e1, "after-success/primitive-root", "C14")
        e1.rec.seq.clear()
        e1.rec.counts.clear()
    nest_census = None
    # re-entrant loads are not generated with a global repository: the nested
    # model would share the repository with the outer models still under
    # construction (textX treats every model in a repository that has a
    # resolver slot as part of the current load)
    if prop in ("C13", "C14") and not cfg["global_repo"] and t.chance(1, 3, "nest-in-census"):
        # a re-entrant load that is harmless for the outer load
        site = t.pick(["prov", "objproc", "init", "modelproc"], "nest-site")
        # C13 says nothing about re-entrant loads that fail: only harmless ones there
        variant = (t.pick(["ok", "syntax", "dangling"] if prop == "C14" else ["ok"], "nest-kind"), "swallow")
        nest_census = (site, 1 + t.draw(3, "nest-k"), variant)
        e1.rec.nest = nest_census
    try:
        m1 = e1.load(as_string)
    except Budget as b:
        ctx.violate("C09", "non-termination", cfg["family"], f"budget exceeded for {b.args[0]}")
        return
    except Exception as e:
        if e1.rec.nest_done is not None and e1.rec.nest_done != "ok":
            ctx.violate("C14", "outer-load-survives-nested", cfgcls + "/" + nest_census[0],
                        f"a swallowed failing nested load ({nest_census[2][0]}) from {nest_census[0]} broke the "
                        f"outer load: {dump_error(e)}")
        else:
            ctx.violate(prop, "census-fails", cfgcls, f"fault-free load failed: {dump_error(e)}")
        return
    ctx.stats["steps"] += sum(e1.rec.counts.values())
    counts = dict(e1.rec.counts)
    d1 = dump_model(m1)
    if nfiles > 1:
        ctx.probe("multi-file")
    if e1.sched.postponements:
        ctx.probe("postponed")
    if e1.rec.nest_done is not None:
        ctx.probe("nested-load-ran:" + str(e1.rec.nest_done))
    check_c13(ctx, e1, cfgcls)
    check_c14_success(ctx, e1, m1, cfgcls + ("/nested" if e1.rec.nest_done else ""))
    check_quiescence(ctx, e1, "after-success" + ("/nested" if e1.rec.nest_done else ""), "C14")
    ctx.sig = [cfg["family"], sorted(cfg["classes"]), mode, e1.sched.trace, nest_census]
    if prop == "C13":
        ctx.nontrivial = bool(e1.rec.objprocs) and (e1.sched.postponements > 0 or nfiles > 1 or bool(e1.rec.replaced))
        if e1.rec.replaced:
            ctx.probe("replacement")
        if not (cfg["global_repo"] and t.chance(2, 3, "c13-after-a-failed-load")):
            return
        # the processors must also run once per object in the load *after* a load that failed late
    if prop == "C14" and not t.chance(2, 5, "c14-fault-path"):
        ctx.nontrivial = bool(cfg["classes"])
        return
    del m1
    e1seq = list(e1.rec.seq)
    e1procs = Counter((e[1], tuple(e[2])) for e in e1seq if e[0] == "objproc")
    # ---- thorough tier of the fault-enumeration properties: every failure point the census saw, not a drawn one
    if os.environ.get("VERIF_TIER") == "thorough" and prop in ("C15", "C33"):
        faults = all_faults(prop, counts, w, refs, cfg)
        for k_, fault in enumerate(faults):
            run_fault(ctx, prop, w, cfg, cfgcls, fault, as_string, d1, counts, refs, e1seq, e1procs)
            ctx.stats["fault_points_enumerated"] += 1
            if ctx.violations:
                break
        ctx.nontrivial = bool(faults)
        return
    # ---- faulted load (fresh E2, weak recorder)
    fault = draw_fault(t, prop, counts, w, refs, cfg)
    if fault is None:
        ctx.nontrivial = False
        return
    run_fault(ctx, prop, w, cfg, cfgcls, fault, as_string, d1, counts, refs, e1seq, e1procs)


def _mirror_resolved(ctx, env):
    """Copy the scheduler's 'resolved' events into the recorder's sequence so
    that ordering oracles see them (the scripted provider logs through ctx)."""
    rec = env.rec
    sched = env.sched
    orig = sched.note_resolved

    def note(ref):
        orig(ref)
        if rec.depth == 0:
            rec.seq.append(("prov-resolved", ref.key))

    sched.note_resolved = note


def draw_fault(t, prop, counts, w, refs, cfg):
    kinds = []
    if prop == "C33":
        sites = [s for s in ("matchproc", "objproc") if counts.get(s)]
        if not sites:
            return None
        site = t.pick(sites, "fault-site")
        exck = t.pick(["tx", "txloc", "valwrap", "txpartial", "txloc-sem", "fnf-wrap", "syntaxerr-wrap"], "exc-kind")
        return ("callback", site, 1 + t.draw(counts[site], "fault-k"), exck)
    cb = [s for s in CALLBACK_SITES if counts.get(s)]
    options = [("callback", s) for s in cb] + [("input", k) for k in INPUT_FAULTS]
    if prop == "C13":
        # (object processors twice: the late failure that leaves every model of the load finished but unprocessed)
        options = [("callback", s) for s in cb if s in ("objproc", "objproc", "modelproc", "init")] + \
            ([("callback", "objproc")] if "objproc" in cb else [])
        if not options:
            return None
    if prop == "C14" and not cfg["global_repo"]:
        options.append(("nested", "propagate"))
        options.append(("nested", "swallow"))
    kind, what = t.pick(options, "fault")
    if kind == "callback":
        exck = t.pick(["tx", "val", "txloc", "key", "txpartial", "kbd", "cancel"], "exc-kind")
        return ("callback", what, 1 + t.draw(counts[what], "fault-k"), exck)
    if kind == "nested":
        sites = [s for s in ("prov", "objproc", "init", "modelproc") if counts.get(s)]
        if not sites:
            return None
        site = t.pick(sites, "nest-site")
        return ("nested", site, 1 + t.draw(counts[site], "nest-k"),
                (t.pick(["syntax", "dangling", "ok"], "nest-kind"), what))
    # input corruption
    closure = w.closure()
    if what == "never" or what == "dangling":
        if not refs:
            return None
        r = t.pick(refs, "fault-ref")
        return ("input", what, r)
    f = t.pick(closure, "fault-file")
    ents = [e for e in w.all_ents(w.files[f]) if e.kind != "inner"]
    if not ents:
        return None
    return ("input", "syntax", t.pick(ents, "fault-ent"))


def all_faults(prop, counts, w, refs, cfg, cap=90):
    """Every failure point of this world: each crossing of each callback site (exception kinds rotate when all
    combinations would exceed the cap), and - for C15 - every reference dangling / never resolving and a syntax
    error before every entity."""
    out = []
    if prop == "C33":
        sites, kinds = ["matchproc", "objproc"], ["tx", "txloc", "valwrap", "txpartial", "txloc-sem", "fnf-wrap", "syntaxerr-wrap"]
    else:
        sites, kinds = CALLBACK_SITES, ["tx", "val", "txloc", "key", "txpartial", "kbd", "cancel"]
    points = [(s_, k) for s_ in sites for k in range(1, counts.get(s_, 0) + 1)]
    if len(points) * len(kinds) <= cap:
        out = [("callback", s_, k, e) for (s_, k) in points for e in kinds]
    else:
        stride = max(1, len(points) // cap + (1 if len(points) % cap else 0)) if len(points) > cap else 1
        for i, (s_, k) in enumerate(points):
            if i % stride == 0:
                out.append(("callback", s_, k, kinds[i % len(kinds)]))
    if prop == "C15":
        for r in refs:
            out.append(("input", "dangling", r))
            out.append(("input", "never", r))
        for f in w.closure():
            for e in w.all_ents(w.files[f]):
                if e.kind != "inner":
                    out.append(("input", "syntax", e))
        if len(out) > 2 * cap:
            step = len(out) // (2 * cap) + 1
            out = out[::step]
    return out


def apply_input_fault(w, fault):
    _, what, target = fault
    if what == "syntax":
        target.pre_tokens = ["%"]
    elif what == "dangling":
        target.text_override = "zz9"
    elif what == "never":
        target._saved_plan = target.plan
        target.plan = ("never",)
    w.render()
    w.install(SIMFS)


def undo_input_fault(w, fault):
    _, what, target = fault
    if what == "syntax":
        target.pre_tokens = []
    elif what == "dangling":
        target.text_override = None
    elif what == "never":
        target.plan = target._saved_plan
    w.render()
    w.install(SIMFS)


def run_fault(ctx, prop, w, cfg, cfgcls, fault, as_string, d1, counts, refs, e1seq, e1procs=None):
    e2 = Env(ctx, "fault", w, cfg, strong=False)
    _mirror_resolved(ctx, e2)
    rec = e2.rec
    fclass = fault[0] + ":" + (fault[1] if isinstance(fault[1], str) else "?")
    if fault[0] == "callback":
        rec.fault = (fault[1], fault[2], fault[3])
        if fault[3] in ("valwrap", "fnf-wrap", "syntaxerr-wrap") and not cfg["wrap"]:
            # the wrap decorator is part of this fault kind
            procs = {k: textxerror_wrap(v) for k, v in e2.mm._obj_processors.items()
                     if k in cfg["procs"]}
            e2.mm.register_obj_processors(procs)
        fclass += ":" + fault[3]
    elif fault[0] == "nested":
        rec.nest = (fault[1], fault[2], fault[3])
        fclass = f"nested:{fault[1]}:{fault[3][0]}:{fault[3][1]}"
    else:
        apply_input_fault(w, fault)
        ctx.fired(fault[1])
    repo_before = None
    if cfg["global_repo"]:
        repo_before = sorted(e2.mm._tx_model_repository.all_models.filename_to_model)
    err = None
    outcome = "ok"
    m2 = None
    try:
        m2 = e2.load(as_string)
    except Budget as b:
        outcome = "budget"
    except TextXError as e:
        outcome = "error"
        err = dump_error(e)
    except (Exception, KeyboardInterrupt, Cancelled) as e:
        outcome = "error"
        err = {"type": type(e).__name__, "msg": str(e)}
    ctx.ev("fault-outcome", outcome, err)
    ctx.stats["steps"] += sum(rec.counts.values())
    where = fclass + ("/classes" if cfg["classes"] else "") + ("/multi" if len(w.files) > 1 else "") + \
        ("/repo" if cfg["global_repo"] else "")
    ctx.sig = ctx.sig + [fclass, fault[2] if fault[0] != "input" else getattr(fault[2], "key", None) or
                         getattr(fault[2], "start", None)]
    if fault[0] == "input":
        undo_input_fault(w, fault)
    if outcome == "budget":
        ctx.violate("C09", "non-termination", cfg["family"], "budget exceeded")
        return
    fired = rec.fault_fired is not None or fault[0] == "input" or rec.nest_done is not None
    if not fired:
        ctx.probe("fault-did-not-fire")
        ctx.nontrivial = False
        return
    if rec.nest_done is not None:
        ctx.probe("nested-load-ran:" + str(rec.nest_done))

    # ---- C33: location of processor errors
    if prop == "C33":
        if fault[1] == "matchproc":
            rec.fault_site_info = match_site(ctx, w, cfg, e1seq, fault[2])
        ctx.nontrivial = outcome == "error"
        check_c33(ctx, w, e2, fault, err, outcome, as_string, where)
        del m2
        return

    if outcome == "ok":
        # the fault did not make the load fail (swallowed nested failure, nested ok)
        if fault[0] == "nested" and fault[3][1] == "swallow" or (fault[0] == "nested" and fault[3][0] == "ok"):
            ctx.nontrivial = bool(cfg["classes"])
            check_quiescence(ctx, e2, "after-success/nested", "C14")
            d2 = dump_model(m2)
            if d2 != d1:
                ctx.violate("C14", "outer-load-survives-nested", where,
                            "model of the outer load differs from the census after a swallowed nested load")
            del m2
            return
        ctx.violate(prop, "fault-swallowed", where, f"injected fault {fclass} did not make the load fail")
        return
    del m2
    # ---- failure path: quiescence
    ctx.nontrivial = True
    ctx.probe("failed-load:" + fault[0] + ":" + str(fault[1]))
    check_quiescence(ctx, e2, where, "C14" if prop == "C14" else "C15")
    if prop == "C14":
        return
    # ---- C15/1: nothing reachable
    if prop == "C13":
        ctx.nontrivial = True
    gc.collect()
    alive_new = sum(1 for r in rec.news if r() is not None)
    alive_parsed = 0
    for fn, lst in rec.parsed:
        for (r, rule, par, pos, strong) in lst:
            if r() is not None:
                alive_parsed += 1
    # independent of the two hooks above: any instance of a class of this metamodel that the collector still knows
    # (objects built before a failure inside tree construction are seen by no hook when they are not user objects)
    mm2 = e2.mm
    alive_any = [o for o in gc.get_objects()
                 if getattr(type(o), "_tx_metamodel", None) is mm2 and hasattr(type(o), "_tx_attrs")
                 and not isinstance(o, type)]
    n_any = len(alive_any)
    kinds_any = sorted({type(o).__name__ for o in alive_any})
    del alive_any
    if n_any and not (alive_new or alive_parsed):
        ctx.violate("C15", "garbage-collectable", where + "/gc-scan",
                    f"{n_any} object(s) of the failed load's metamodel classes {kinds_any} are still alive after gc "
                    f"(found by scanning the collector's objects)")
    if alive_new or alive_parsed:
        holders = _describe_holders(rec)
        ctx.violate("C15", "garbage-collectable", where,
                    f"{alive_parsed} parsed object(s) and {alive_new} user object(s) of the failed load are still "
                    f"alive after gc; held by: {holders}")
    # ---- C15/4: global repository unchanged
    if repo_before is not None:
        after = sorted(e2.mm._tx_model_repository.all_models.filename_to_model)
        if after != repo_before:
            ctx.violate("C15", "repository-unchanged", where,
                        f"global repository holds {[os.path.basename(x) for x in after]} after the failed load")
            # clean up so that the recovery clause is judged on its own
            for k in list(e2.mm._tx_model_repository.all_models.filename_to_model):
                if k not in repo_before:
                    del e2.mm._tx_model_repository.all_models.filename_to_model[k]
    # ---- C15/3: the same metamodel loads like a fresh one
    rec.fault = None
    rec.nest = None
    rec.fault_fired = "done"
    e2.sched.resolved.clear()
    e2.sched.calls.clear()
    mark = len(rec.seq)
    try:
        m3 = e2.load(as_string)
        d3 = dump_model(m3)
        if prop == "C13" and e1procs is not None:
            got = Counter((e[1], tuple(e[2])) for e in rec.seq[mark:] if e[0] == "objproc")
            if got != e1procs:
                miss = sorted((e1procs - got).items())[:3]
                extra = sorted((got - e1procs).items())[:3]
                ctx.violate("C13", "once-per-object", where + "/after-failed-load",
                            f"in the load after a failed load the object processors did not run once per object: "
                            f"missing {miss}, extra {extra}")
        if d3 != d1:
            ctx.violate("C15", "next-load-equals-fresh", where,
                        "after the failed load the same metamodel builds a different model than a fresh metamodel")
        del m3
    except TextXError as e:
        ctx.violate("C15", "next-load-equals-fresh", where,
                    f"after the failed load the same metamodel fails on the valid input: {dump_error(e)}")
    except Exception as e:
        ctx.violate("C15", "next-load-equals-fresh", where,
                    f"after the failed load the same metamodel raises {type(e).__name__}: {e}")
    check_quiescence(ctx, e2, where + "/after-recovery", "C15")


def match_site(ctx, w, cfg, seq, k):
    """(file, offset, None) of the k-th match-processor call (ID, QN, INT, Tag),
    from the census sequence and the generator's token table.  A reference
    token b1.d2 makes textX call ID for every part (at the part's own offset)
    and then QN for the whole name (at the start of the reference)."""
    import re as _re

    procs = cfg["procs"]
    pending = []
    n = 0
    for e in seq:
        if e[0] == "matchproc":
            pending.append((e[1], e[2]))
        elif e[0] == "parsed":
            fn = next((p for p in w.files if os.path.basename(p) == e[1]), w.main)
            exp = []
            for (a, s_, role) in w.files[fn].tokens:
                if role == "name" and "ID" in procs:
                    exp.append(("ID", s_, a))
                elif role == "int" and "INT" in procs:
                    exp.append(("INT", s_, a))
                elif role == "tag" and "Tag" in procs:
                    exp.append(("Tag", s_, a))
                elif role in ("ref", "refc"):
                    parts = list(_re.finditer(r"\w+", s_))
                    if "ID" in procs:
                        for m in parts:
                            exp.append(("ID", m.group(0), a + m.start()))
                    if "QN" in procs and role == "ref":  # no processor is registered for the '::' rule QNC
                        exp.append(("QN", ".".join(m.group(0) for m in parts), a))
            if [(r, v) for (r, v, a) in exp] != pending:
                ctx.probe("match-map-mismatch")
                return None
            if n < k <= n + len(pending):
                ctx.probe("match-fault-on:" + exp[k - n - 1][0])
                return (fn, exp[k - n - 1][2], None)
            n += len(pending)
            pending = []
    return None


def _describe_holders(rec):
    out = []
    for r in rec.news[:50]:
        o = r()
        if o is None:
            continue
        for h in gc.get_referrers(o)[:6]:
            if isinstance(h, dict):
                owner = [type(x).__name__ + ":" + getattr(x, "__name__", "") for x in gc.get_referrers(h)[:3]
                         if not isinstance(x, (dict, list, tuple))]
                out.append("dict of " + ",".join(owner))
            else:
                out.append(type(h).__name__)
        break
    return sorted(set(out))[:5]


def check_c33(ctx, w, env, fault, err, outcome, as_string, where):
    _, site, k, exck = fault
    rec = env.rec
    cls = f"{site}:{exck}" + ("/string" if as_string else "/file")
    if outcome != "error" or err is None:
        ctx.violate("C33", "raises-textxerror", cls, f"injected {exck} in {site} #{k}: load outcome {outcome}")
        return
    if err["type"] not in ("TextXError", "TextXSemanticError", "TextXSyntaxError"):
        ctx.violate("C33", "raises-textxerror", cls, f"load raised {err['type']}")
        return
    want_msg = str(make_exc(exck)) if exck in ("fnf-wrap", "syntaxerr-wrap") else "injected"
    if err["msg"] != want_msg:
        ctx.violate("C33", "message-preserved", cls, f"message is {err['msg']!r}")
    if exck in ("txloc", "txloc-sem"):
        got = (err.get("line"), err.get("col"), err.get("nchar"), err.get("filename"))
        if got != (77, 88, 99, "sentinel.file"):
            ctx.violate("C33", "supplied-location-kept", cls, f"processor-supplied location became {got}")
        return
    if exck == "txpartial":
        if (err.get("line"), err.get("col")) != (77, 88):
            ctx.violate("C33", "supplied-location-kept", cls,
                        f"processor-supplied line/col became {(err.get('line'), err.get('col'))}")
        exp = rec.fault_site_info
        if exp is not None:
            fn, pos, nchar = exp
            want_file = None if as_string else fn
            if err.get("filename") != want_file:
                ctx.violate("C33", "filename", cls, f"filename {err.get('filename')!r}, processed text is in {want_file!r}")
            if site == "objproc" and err.get("nchar") != nchar:
                ctx.violate("C33", "nchar", cls, f"nchar {err.get('nchar')!r}, object text length is {nchar}")
        return
    # expected location from the harness's own bookkeeping
    exp = rec.fault_site_info
    if exp is None:
        return
    fn, pos, nchar = exp
    text = w.files[fn or w.main].text
    line, col = linecol(text, pos)
    want_file = None if as_string else fn
    if not as_string and fn != w.main:
        cls += "/imported"
    if err.get("filename") != want_file:
        ctx.violate("C33", "filename", cls, f"filename {err.get('filename')!r}, processed text is in {want_file!r}")
    if (err.get("line"), err.get("col")) != (line, col):
        ctx.violate("C33", "line-col", cls,
                    f"location {(err.get('line'), err.get('col'))}, processed text starts at {(line, col)}")
    if site == "objproc" and err.get("nchar") != nchar:
        ctx.violate("C33", "nchar", cls, f"nchar {err.get('nchar')!r}, object text length is {nchar}")


RULES = {
    "C13": "one run = one generated world (1-3 files) loaded once with recording processors on every rule (common, "
           "abstract Item, match rules), a postponement schedule, optionally user classes, replacing processors and a "
           "harmless re-entrant load; oracles over the recorded callback history; non-trivial = processors ran and "
           "(a reference was postponed, or several files, or a replacement happened); distinct = distinct (family, "
           "classes, mode, provider trace, nested-load plan)",
    "C14": "W2 runs with >=1 user class (7 variants); census load (success path: init once, exact keywords, resolved "
           "references, init before processors, class dicts restored) optionally with a re-entrant load from a "
           "callback (ok / failing-and-swallowed); 40% of runs add a faulted load (callback k raises, input "
           "corruption, never-resolving reference, re-entrant load propagating) followed by the quiescence oracle; "
           "non-trivial = user classes present; distinct = (family, classes, mode, trace, nest plan, fault)",
    "C15": "fault enumeration by census: a fault-free load counts the crossings of every site (provider, match "
           "processors, object processors, model processors, user __init__, pre-ref-resolution callback); one "
           "(site, k, exception kind) or input corruption (syntax / dangling / never) is drawn from what really "
           "happens; after the failure: weak references dead after gc, classes uninstrumented, repository snapshot, "
           "recovery load equals the census dump; non-trivial = the load failed; distinct = (world, fault). THOROUGH "
           "tier: not one drawn fault but every crossing of every site (exception kinds rotating) plus every reference "
           "dangling / never resolving and a syntax error before every entity (coverage.counters.fault_points_enumerated)",
    "C33": "the injected fault is the k-th match-processor (Tag/INT/QN) or object-processor call raising TextXError "
           "without location / with sentinel location / ValueError under textxerror_wrap; string and file loads, main "
           "and imported files; expected line/col/nchar/filename from the generator's token table and the parse-time "
           "snapshot; non-trivial = the load failed; distinct = (world, site, k, kind). THOROUGH tier: every match- and "
           "object-processor call of the census fails in turn with every exception kind",
}
ASSUMPTIONS = {
    "C13": ["template family of tvsim/gen.py; abstract alternatives are common rules"],
    "C14": ["the root class accepts attribute assignment after construction (textX stores _tx_* bookkeeping on the "
            "root); re-entrant loads are not combined with a global repository",
            "left-over inert bookkeeping attributes are counted (probe), not gated"],
    "C15": ["open() errors are not generated here; the harness holds only weak references and primitive ids of the "
            "failed load"],
    "C33": ["user classes restricted to variants that accept attribute assignment (positions of objects that reject "
            "them are lost: C06's domain)"],
}
