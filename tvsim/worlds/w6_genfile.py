"""
W6 - generated-file world (C31).  DESIGN.md section 3/W6 and 4/C31.

One run = one case (generator, metamodel/model size, pre-existing file or
not, I/O model).  A census call gives the number of output operations n and
the reference content; then **every** operation k of the output file object
(open, write_1..write_n, flush/close) fails in turn with every fault kind, in
a real scratch directory.  After each injected failure: the output path is
absent or complete; a fault-free rerun without --overwrite completes it.
"""

import errno
import logging
import os
import shutil
import tempfile

import textx  # noqa
from textx import generator_for_language_target, metamodel_from_str

from ..seams import FILE_HOOK, SIMFS

logging.getLogger("textx").setLevel(logging.ERROR)

OLD = "// OLD COMPLETE DOCUMENT\n"


class Fault(Exception):
    pass


class InjectedAppError(RuntimeError):
    """an application-level failure (not an OSError) raised from inside a write"""


def make_fault(mode, eno, text):
    """The exception a failing output operation raises.  `mode` is drawn per case: the I/O error itself, an
    application error, or an interruption that unwinds the stack like any exception (Ctrl-C arriving inside a
    write, a callback calling sys.exit()) - all of them are 'the generator fails while producing the file'."""
    if mode == "oserror":
        return OSError(eno, text + " (injected)")
    if mode == "app-error":
        return InjectedAppError(text + " (injected)")
    if mode == "keyboard-interrupt":
        return KeyboardInterrupt()
    if mode == "system-exit":
        return SystemExit(3)
    raise AssertionError(mode)


FAILURES = (OSError, InjectedAppError, KeyboardInterrupt, SystemExit)


class FaultyFile:
    """Wraps the real output file.  op numbering: 0 = open, 1..n = write calls,
    n+1 = the final flush/close.  `plan` = (op, kind) or None."""

    def __init__(self, real, hook):
        self.real = real
        self.h = hook
        self.buf = []
        self.closed = False

    # context manager
    def __enter__(self):
        return self

    def __exit__(self, et, ev, tb):
        self.close()
        return False

    def write(self, s):
        h = self.h
        h.nwrites += 1
        h.log("write", h.nwrites, len(s))
        plan = h.plan if h.active else None
        if h.tripped and h.persistent:
            raise make_fault(h.exc_mode, errno.ENOSPC, "No space left on device")
        if h.buffered:
            self.buf.append(s)
            return len(s)
        if plan and plan[0] == h.nwrites:
            if plan[1] == "write-fail":
                h.fired("write-fail")
                h.tripped = True
                raise make_fault(h.exc_mode, errno.ENOSPC, "No space left on device")
            if plan[1] == "short-write":
                h.fired("short-write")
                h.tripped = True
                self.real.write(s[: len(s) // 2])
                self.real.flush()
                raise make_fault(h.exc_mode, errno.ENOSPC, "No space left on device")
        self.real.write(s)
        self.real.flush()
        return len(s)

    def flush(self):
        self.h.log("flush")
        if self.h.tripped and self.h.persistent:
            raise make_fault(self.h.exc_mode, errno.ENOSPC, "No space left on device")
        if not self.h.buffered:
            self.real.flush()

    def close(self):
        if self.closed:
            return
        self.closed = True
        h = self.h
        h.log("close")
        plan = h.plan if h.active else None
        h.counts.append(h.nwrites)
        if h.tripped and h.persistent:
            # the data still buffered cannot be written either; the descriptor is released, the error reported
            self.real.close()
            raise make_fault(h.exc_mode, errno.ENOSPC, "No space left on device")
        if h.buffered:
            data = "".join(self.buf)
            if plan and plan[0] == "close":
                frac = {"flush-fail-nothing": 0.0, "flush-fail-half": 0.5, "flush-fail-all-but-one": None}[plan[1]]
                cut = len(data) - 1 if frac is None else int(len(data) * frac)
                h.fired(plan[1])
                h.tripped = True
                self.real.write(data[:max(cut, 0)])
                self.real.close()
                raise make_fault(h.exc_mode, errno.EIO, "Input/output error")
            self.real.write(data)
            self.real.close()
            return
        if plan and plan[0] == "close" and plan[1] == "close-fail":
            h.fired("close-fail")
            h.tripped = True
            self.real.close()
            raise make_fault(h.exc_mode, errno.EIO, "Input/output error")
        self.real.close()

    def __getattr__(self, name):
        return getattr(self.real, name)


class Hook:
    def __init__(self, ctx, outdir):
        self.ctx = ctx
        self.outdir = outdir
        self.plan = None
        self.buffered = False
        self.nwrites = 0
        self.nopens = 0
        self.active = True
        self.counts = []  # write calls per output file, in the order the files were closed
        self.quiet = False
        self.exc_mode = "oserror"
        self.plan_file = None  # the plan applies to the n-th output file opened by one call (None: to every one)
        self.persistent = False  # a full disk stays full: after the planned failure every later write/flush/close fails
        self.tripped = False

    def log(self, *a):
        if not self.quiet:
            self.ctx.ev("out", *a)

    def fired(self, kind):
        self.ctx.fired(kind)

    def __call__(self, real_open, file, mode="r", *args, **kwargs):
        p = os.fspath(file)
        if not (isinstance(p, str) and p.startswith(self.outdir + os.sep) and ("w" in mode or "a" in mode)):
            return real_open(file, mode, *args, **kwargs)
        self.nopens += 1
        self.nwrites = 0
        self.log("open", os.path.basename(p), mode)
        self.active = self.plan_file is None or self.nopens == self.plan_file
        if self.plan and self.plan[0] == 0 and self.active:
            self.fired("open-fail")
            raise make_fault(self.exc_mode, errno.EACCES, "Permission denied")
        return FaultyFile(real_open(file, mode, *args, **kwargs), self)


def make_grammar(t):
    n = 1 + t.draw(5, "nrules")
    rules = ["Model: " + " ".join(f"r{i}*=R{i}" for i in range(n)) + ";"]
    for i in range(n):
        attrs = " ".join(f"a{j}={t.pick(['INT', 'ID', 'STRING', 'BOOL'], 'atype')}" for j in range(1 + t.draw(3, "nattrs")))
        ref = f" ('->' ref=[R{t.draw(n, 'reft')}])?" if t.chance(1, 2, "hasref") else ""
        rules.append(f"R{i}: 'r{i}' name=ID {attrs}{ref} ';';")
    return "\n".join(rules), n


_IDS = None


def read(path):
    """Content of an output file with object ids (node names of the DOT export are id(obj)) normalised."""
    import re

    from ..seams import real_open

    global _IDS
    if _IDS is None:
        _IDS = re.compile(r"\d{6,}")
    with real_open(path, "r", encoding="utf-8") as f:
        return _IDS.sub("N", f.read())


def run_cli(ctx, t, which):
    """The same property through the real command: `textx generate <grammar files> --target T -o DIR [--overwrite]`
    (click's CliRunner, in-process).  One command may generate several files: a failure inside file i must leave the
    files before it complete, file i absent or complete, and the later ones untouched."""
    from click.testing import CliRunner
    from textx.cli import textx as textx_cli

    target = t.pick(["dot", "PlantUML"], "cli-target")
    ext = {"dot": "dot", "PlantUML": "pu"}[target]
    nfiles = 1 + t.draw(2, "cli-nfiles")
    preexisting = t.chance(1, 3, "old-files-and-overwrite")
    buffered = t.chance(1, 2, "buffered-io")
    outdir = tempfile.mkdtemp(prefix="tvsim-w6-")
    hook = Hook(ctx, outdir)
    hook.buffered = buffered
    hook.exc_mode = t.pick(["oserror", "oserror", "app-error", "keyboard-interrupt", "system-exit"], "failure-is")
    hook.persistent = t.chance(1, 3, "the-fault-persists")
    FILE_HOOK[0] = hook
    from ..seams import real_open
    try:
        files, outs = [], []
        for i in range(nfiles):
            g, _ = make_grammar(t)
            SIMFS.files[f"/sim/w6/cli{i}.tx"] = g
            files.append(f"/sim/w6/cli{i}.tx")
            outs.append(os.path.join(outdir, f"cli{i}.{ext}"))
        ctx.sample = {"generator": "cli/" + target, "files": nfiles, "old_file": preexisting,
                      "io": "buffered" if buffered else "unbuffered", "failure_is": hook.exc_mode}

        def call(overwrite):
            hook.nopens = 0
            hook.counts = []
            args = ["generate"] + files + ["--target", target, "-o", outdir] + (["--overwrite"] if overwrite else [])
            r = CliRunner().invoke(textx_cli, args)
            return r.exit_code == 0 and (r.exception is None or isinstance(r.exception, SystemExit))

        if not call(False) or hook.nopens != nfiles or not all(os.path.exists(o) for o in outs):
            ctx.violate("C31", "census", "cli/" + target, f"fault-free `textx generate`: opens={hook.nopens}")
            return
        counts = list(hook.counts)
        refs = [read(o) for o in outs]
        for o in outs:
            os.remove(o)
        hook.quiet = True
        npoints = 0
        for fi in range(1, nfiles + 1):
            n = counts[fi - 1]
            if buffered:
                points = [(0, "open-fail")] + [("close", k) for k in ("flush-fail-nothing", "flush-fail-half", "flush-fail-all-but-one")]
            else:
                ks = list(range(1, n + 1))
                if len(ks) > 12:
                    ks = ks[:3] + ks[3:-3:max(1, (len(ks) - 6) // 6)] + ks[-3:]
                points = [(0, "open-fail")] + [(k, kind) for k in ks for kind in ("write-fail", "short-write")] + [("close", "close-fail")]
            for plan in points:
                for o in outs:
                    if os.path.exists(o):
                        os.remove(o)
                    if preexisting:
                        with real_open(o, "w", encoding="utf-8") as f:
                            f.write(OLD)
                hook.plan, hook.plan_file, hook.tripped = plan, fi, False
                ok = call(preexisting)
                hook.plan, hook.plan_file, hook.tripped = None, None, False
                stray = sorted(x for x in os.listdir(outdir) if os.path.join(outdir, x) not in outs)
                if stray:
                    ctx.violate("C31", "partial-file-left", f"cli/{target}/{plan[1]}/stray-file",
                                f"after {plan[1]} in file {fi} the output directory holds {stray} besides the outputs")
                    for x in stray:
                        os.remove(os.path.join(outdir, x))
                npoints += 1
                ctx.stats["crash_points"] += 1
                cls = f"cli/{target}/{plan[1]}/file{fi}of{nfiles}" + ("/old-file" if preexisting else "") + \
                    ("" if hook.exc_mode == "oserror" else "/" + hook.exc_mode)
                ctx.ev("cli-point", fi, plan[0], plan[1], ok)
                if ok:
                    ctx.violate("C31", "fault-swallowed", cls, f"injected {plan} in file {fi} did not make the command fail")
                    continue
                for i, o in enumerate(outs, 1):
                    if not os.path.exists(o):
                        if i < fi:
                            ctx.violate("C31", "earlier-file-lost", cls, f"file {i} was generated before the failure in file {fi} and is gone")
                        continue
                    content = read(o)
                    okset = {refs[i - 1]} if i < fi else ({refs[i - 1], OLD} if i == fi else {OLD})
                    if not preexisting:
                        okset.discard(OLD)
                    if content not in okset:
                        ctx.violate("C31", "partial-file-left", cls,
                                    f"after {plan[1]} at operation {plan[0]} of file {fi}: output {i} holds {len(content)} "
                                    f"of {len(refs[i - 1])} bytes")
                if not call(False):
                    ctx.violate("C31", "rerun-fails", cls, "fault-free rerun of the command failed")
                    continue
                for i, o in enumerate(outs, 1):
                    if not os.path.exists(o):
                        ctx.violate("C31", "rerun-completes", cls, f"fault-free rerun left no output {i}")
                    elif read(o) not in ({refs[i - 1], OLD} if preexisting else {refs[i - 1]}):
                        ctx.violate("C31", "rerun-skips-truncated-file", cls,
                                    f"a later run without --overwrite kept a truncated output {i}")
        ctx.nontrivial = True
        ctx.probe("through-the-textx-command")
        if nfiles > 1:
            ctx.probe("command-generating-several-files")
        ctx.stats["steps"] += npoints
        ctx.sig = ["cli", target, nfiles, counts, [len(r) for r in refs], preexisting, buffered, hook.exc_mode]
    finally:
        FILE_HOOK[0] = None
        shutil.rmtree(outdir, ignore_errors=True)


def run(ctx):
    t = ctx.tape
    which = t.pick(["mm-dot", "model-dot", "mm-pu", "model-dot-multi", "custom-gen-file", "cli"], "generator")
    if which == "cli":
        return run_cli(ctx, t, which)
    gtext, nrules = make_grammar(t)
    preexisting = t.chance(1, 3, "old-file-and-overwrite")
    buffered = t.chance(1, 2, "buffered-io")
    SIMFS.files["/sim/w6/lang.tx"] = gtext
    outdir = tempfile.mkdtemp(prefix="tvsim-w6-")
    hook = Hook(ctx, outdir)
    hook.buffered = buffered
    hook.exc_mode = t.pick(["oserror", "oserror", "app-error", "keyboard-interrupt", "system-exit"], "failure-is")
    debug = t.chance(1, 3, "generator-called-with-debug")
    hook.persistent = t.chance(1, 3, "the-fault-persists")
    custom_args = {}
    FILE_HOOK[0] = hook
    # the output folder handed to the generator may not exist yet (textX refuses that: nothing is generated; an
    # implementation that creates the folder has to clean up in it just the same)
    missing_folder = t.chance(1, 6, "output-folder-does-not-exist")
    real_outdir = outdir
    if missing_folder:
        outdir = os.path.join(outdir, "fresh", "sub")
    nested = False
    inner_out = None
    try:
        mm = metamodel_from_str(gtext, file_name="/sim/w6/lang.tx")
        if which == "model-dot-multi":
            # a model with a repository of imported models: the exporter writes one cluster per file
            from ..gen import gen_world, grammar
            import textx.scoping.providers as sp

            w = gen_world(t, "/sim/w6m", nfiles=2 + t.draw(2, "nfiles"), max_refs=6, spaced_names=False)
            w.install(SIMFS)
            mm = metamodel_from_str(grammar())
            mm.register_scope_providers({"*.*": sp.PlainNameImportURI()})
            model = mm.model_from_file(w.main)
            gen = generator_for_language_target("any", "dot")
            args = (mm, model, outdir)
            out = os.path.join(outdir, "f0.dot")
            nrules = len(w.files)
        elif which == "custom-gen-file":
            # a user's registered generator that writes through textX's helper gen_file(): several chunks, an
            # explicit flush in between
            from textx import register_generator
            from textx.generators import gen_file, get_output_filename

            nchunks = 1 + t.draw(6, "nchunks")
            model = mm.model_from_str("r0 o0 " + _vals(mm, 0) + " ;")
            model._tx_filename = "/sim/w6/input.m"
            # the generator may call another registered generator (which writes through gen_file() itself) from
            # inside its own callback: two output files, the clean-up has to pick the right one
            nested = t.chance(1, 3, "generator-calls-another-generator")
            if nested:
                inner_out = os.path.join(outdir, "input.dot")

            def user_generator(metamodel, model, output_path, overwrite, debug, **custom):
                output_file = get_output_filename(model._tx_filename, output_path, "txt")

                def write_it():
                    with open(output_file, "w", encoding="utf-8") as f:
                        for i in range(nchunks):
                            f.write(f"chunk {i} of {nchunks}\n")
                            if i % 2:
                                f.flush()
                            if nested and i == 0:
                                generator_for_language_target("any", "dot")(metamodel, model, output_path, overwrite, debug)
                        f.write("END\n")

                gen_file(model._tx_filename, output_file, write_it, overwrite)

            register_generator("w6lang", "w6txt", generator=user_generator)
            gen = generator_for_language_target("W6LANG", "w6TXT")
            args = (mm, model, outdir)
            out = os.path.join(outdir, "input.txt")
        elif which == "model-dot":
            nobj = 1 + t.draw(4, "nobjs")
            mtext = " ".join(f"r0 o{i} " + _vals(mm, 0) + " ;" for i in range(nobj))
            model = mm.model_from_str(mtext)
            model._tx_filename = "/sim/w6/input.m"
            gen = generator_for_language_target("any", "dot")
            args = (mm, model, outdir)
            out = os.path.join(outdir, "input.dot")
        elif which == "mm-dot":
            gen = generator_for_language_target("textX", "dot")
            args = (None, mm, outdir)
            out = os.path.join(outdir, "lang.dot")
        else:
            gen = generator_for_language_target("textX", "PlantUML")
            args = (None, mm, outdir)
            out = os.path.join(outdir, "lang.pu")
            if t.chance(1, 2, "linetype"):
                custom_args = {"linetype": t.pick(["ortho", "polyline"], "linetype-v")}
        ctx.sample = {"generator": which, "rules": nrules, "old_file": preexisting, "io": "buffered" if buffered else "unbuffered",
                      "failure_is": hook.exc_mode, "debug": debug, "custom_args": custom_args,
                      "fault_persists": hook.persistent}

        def call(overwrite):
            gen(*args, overwrite, debug, **custom_args)

        # ---- census
        if missing_folder:
            out = out.replace(real_outdir, outdir, 1) if not out.startswith(outdir) else out
        try:
            call(False)
        except FileNotFoundError:
            left = [os.path.join(r_, f) for r_, _, fs in os.walk(real_outdir) for f in fs]
            if missing_folder and not left:
                # refused: the folder does not exist, nothing was generated, nothing is left behind
                ctx.ev("missing-output-folder-refused")
                ctx.probe("missing-output-folder-refused")
                ctx.nontrivial = True
                ctx.sig = [which, "missing-folder-refused"]
                return
            raise
        n = hook.nwrites
        want_opens = 2 if nested else 1
        if hook.nopens != want_opens or n < 1 or not os.path.exists(out) or (nested and not os.path.exists(inner_out)):
            ctx.violate("C31", "census", which, f"fault-free generation: opens={hook.nopens} writes={n}")
            return
        ref = read(out)
        os.remove(out)
        ref_inner = None
        if nested:
            ref_inner = read(inner_out)
            os.remove(inner_out)
            ctx.probe("generator-calling-another-generator")
        if missing_folder:
            ctx.probe("output-folder-created-by-the-generator")
        ctx.sample["writes"] = n
        ctx.sample["bytes"] = len(ref)
        # ---- enumerate every crash point
        points = [(0, "open-fail")]
        if buffered:
            points += [("close", k) for k in ("flush-fail-nothing", "flush-fail-half", "flush-fail-all-but-one")]
        else:
            for k in range(1, n + 1):
                points.append((k, "write-fail"))
                points.append((k, "short-write"))
            points.append(("close", "close-fail"))
        complete = {ref} | ({OLD} if preexisting else set())  # normalised, see read()
        hook.quiet = True
        for plan in points:
            if os.path.exists(out):
                os.remove(out)
            if nested and os.path.exists(inner_out):
                os.remove(inner_out)
            if preexisting:
                from ..seams import real_open
                with real_open(out, "w", encoding="utf-8") as f:
                    f.write(OLD)
            hook.plan = plan
            hook.tripped = False
            failed = False
            try:
                call(preexisting)  # overwrite only when an old file is there
            except FAILURES:
                failed = True
            hook.plan = None
            hook.tripped = False
            ctx.ev("point", plan[0], plan[1], failed)
            ctx.stats["crash_points"] += 1
            cls = f"{which}/{plan[1]}" + ("/old-file" if preexisting else "") + \
                ("" if hook.exc_mode == "oserror" else "/" + hook.exc_mode) + ("/debug" if debug else "") + \
                ("/persistent" if hook.persistent else "")
            if not failed:
                ctx.violate("C31", "fault-swallowed", cls, f"injected {plan} did not make the generator fail")
                continue
            stray = []
            for r_, _, fs in os.walk(real_outdir):
                for f_ in fs:
                    fp = os.path.join(r_, f_)
                    if fp == out:
                        continue
                    if nested and fp == inner_out and read(fp) == ref_inner:
                        continue  # the inner generator finished its own file before the outer one failed
                    stray.append(os.path.relpath(fp, real_outdir))
            stray.sort()
            if stray:
                # e.g. a temporary file of a write-then-rename scheme that was not removed: a partial output file too
                ctx.violate("C31", "partial-file-left", cls + "/stray-file",
                            f"after {plan[1]} at operation {plan[0]} the output directory holds {stray} besides the "
                            f"expected output file")
                for x in stray:
                    os.remove(os.path.join(real_outdir, x))
            if os.path.exists(out):
                content = read(out)
                if content not in complete:
                    ctx.violate("C31", "partial-file-left", cls,
                                f"after {plan[1]} at operation {plan[0]} of {n + 1} the output file holds "
                                f"{len(content)} of {len(ref)} bytes")
            # ---- rerun without --overwrite, no fault
            try:
                call(False)
            except FAILURES as e:
                ctx.violate("C31", "rerun-fails", cls, f"fault-free rerun failed: {e}")
                continue
            if nested and (not os.path.exists(inner_out) or read(inner_out) != ref_inner):
                ctx.violate("C31", "rerun-completes", cls + "/inner", "fault-free rerun left no complete output of the inner generator")
            if not os.path.exists(out):
                ctx.violate("C31", "rerun-completes", cls, "fault-free rerun left no output file")
            else:
                content = read(out)
                if content not in complete:
                    ctx.violate("C31", "rerun-skips-truncated-file", cls,
                                f"a later run without --overwrite kept a truncated file ({len(content)} of {len(ref)} bytes)")
        ctx.nontrivial = True
        ctx.stats["steps"] += len(points)
        ctx.sig = [which, nrules, n, len(ref), preexisting, buffered, hook.exc_mode, debug, missing_folder, nested]
    finally:
        FILE_HOOK[0] = None
        shutil.rmtree(real_outdir, ignore_errors=True)


def _vals(mm, i):
    cls = mm[f"R{i}"]
    out = []
    for name, a in cls._tx_attrs.items():
        if name in ("name", "ref"):
            continue
        tn = a.cls.__name__
        out.append({"INT": "3", "ID": "x", "STRING": '"s"', "BOOL": "true"}[tn])
    return " ".join(out)


RULES = {
    "C31": "one run = one case (one of the 3 built-in generators obtained through generator_for_language_target, a user's "
           "registered generator writing through gen_file(), or the real `textx generate` command over 1-2 grammar files; a "
           "generated grammar of 1-5 rules / a model of 1-4 objects, with or without a pre-existing complete file + "
           "overwrite, unbuffered or buffered output); ALL operations of the output file object are failed in turn: "
           "open, every write call (fail before writing / short write), or - buffered - the final flush torn at 0, "
           "1/2 and len-1 bytes, and close; after each: path absent or complete, then a fault-free rerun without "
           "--overwrite must leave a complete document; exhaustive within a case, cases sampled; distinct = (generator, "
           "rules, writes, bytes, old file, io model)",
}
ASSUMPTIONS = {
    "C31": ["a 'complete' document is byte-identical to the fault-free output (or to the old complete file)",
            "hard process kills are not simulated (the statement speaks of a generator that fails)",
            "any other file left in the output directory after a failed run counts as a partial output file"],
}
