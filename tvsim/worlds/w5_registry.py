"""
W5 - registry world (C26).  DESIGN.md section 3/W5 and 4/C26.

A history of <= 30 operations on textx.registration over a small universe of
names (case variants), targets, patterns and file names, with a scripted
entry-point table.  Every operation is compared with a small map model
(returns, exception types, descriptor and metamodel identities, factory call
counts); the public views are compared after every step.
"""

import fnmatch

import textx  # noqa
import textx.registration as reg
from textx.exceptions import TextXRegistrationError
from textx.metamodel import TextXMetaModel
from textx.registration import GeneratorDesc, LanguageDesc

NAMES = ["lang", "Lang", "LANG", "other", "any", "Other"]
TARGETS = ["dot", "Dot", "java", "DOT"]
PATTERNS = ["*.a", "*.b", "x.a", "*.*", None]  # None = registered without a pattern (the default): matches no file
FILES = ["x.a", "y.b", "z.c", "x.b"]


class EP:
    """A fake importlib.metadata entry point."""

    class Dist:
        def __init__(self, name, version):
            self.name = name
            self.version = version

    def __init__(self, obj, dist, version, name=None):
        self.obj = obj
        self.dist = EP.Dist(dist, version)
        self.loads = 0
        # the entry point's own name is a Python identifier chosen by the plug-in, not the language / generator name
        self.name = name or "ep_" + str(getattr(obj, "name", None) or getattr(obj, "target", "x")).lower().replace("-", "_")
        self.group = "textx_languages" if hasattr(obj, "pattern") else "textx_generators"
        self.value = "plugin.module:" + self.name

    def load(self):
        self.loads += 1
        return self.obj


class InjectedFactoryError(TypeError):
    """what a factory raises when it is given an option it does not know"""


class Factory:
    """flaky = None | 'raise' | 'bad': the factory fails (raises / returns a non-metamodel) exactly when it is asked
    for option k=2 - the injected fault of this world: a failing request must leave the cached instance alone."""

    def __init__(self, ctx, key, bad=False, flaky=None):
        self.calls = []
        self.key = key
        self.bad = bad
        self.flaky = flaky
        self.made = []
        self.ctx = ctx

    def fails_for(self, kwargs):
        return self.flaky is not None and kwargs.get("k") == 2

    def __call__(self, **kwargs):
        self.calls.append(dict(kwargs))
        if self.fails_for(kwargs):
            self.ctx.fired("factory-" + self.flaky)
            if self.flaky == "raise":
                self.made.append(None)
                raise InjectedFactoryError("injected: unknown option")
            mm = object()
        else:
            mm = object() if self.bad else TextXMetaModel()
        self.made.append(mm)
        return mm


class LRec:
    def __init__(self, name, pattern, mmv, desc=None):
        self.name, self.pattern, self.mmv, self.desc = name, pattern, mmv, desc


class GRec:
    def __init__(self, language, target, desc=None):
        self.language, self.target, self.desc = language, target, desc


class Model:
    """Reference model: two case-folded ordered maps + metamodel cache +
    entry-point table + 'initialised' flags."""

    def __init__(self, ep_langs, ep_gens):
        self.ep_langs = ep_langs
        self.ep_gens = ep_gens
        self.langs = None
        self.gens = None
        self.cache = {}

    def init_langs(self):
        if self.langs is None:
            self.langs = {}
            for d in self.ep_langs:
                self.langs[d.name.lower()] = LRec(d.name, d.pattern, d.metamodel, d)

    def init_gens(self):
        if self.gens is None:
            self.gens = {}
            for d in self.ep_gens:
                self.gens.setdefault(d.language.lower(), {})[d.target.lower()] = GRec(d.language, d.target, d)

    def state(self):
        return (
            None if self.langs is None else tuple(sorted(self.langs)),
            None if self.gens is None else tuple(sorted((l, t) for l, ts in self.gens.items() for t in ts)),
            tuple(sorted(self.cache)),
        )

    def hits(self, f):
        return [k for k, r in self.langs.items()
                if r.pattern is not None and (f == r.pattern or fnmatch.fnmatch(f, r.pattern))]

    def mm_for(self, name, kwargs):
        """expectation for metamodel_for_language(name, **kwargs)"""
        name = name.lower()
        if name not in self.cache or kwargs:
            self.init_langs()
            if name not in self.langs:
                return ERR
            r = self.langs[name]
            if isinstance(r.mmv, TextXMetaModel):
                self.cache[name] = r.mmv
                return ("is", r.mmv)
            f = r.mmv
            if f.bad:
                return ("bad", f, len(f.calls) + 1, dict(kwargs))
            if f.fails_for(kwargs):
                # the request fails; whatever was cached for the language stays cached
                return ("raises" if f.flaky == "raise" else "bad", f, len(f.calls) + 1, dict(kwargs))
            return ("fresh", f, len(f.calls) + 1, dict(kwargs), name)
        return ("is", self.cache[name])


class Err:
    def __repr__(self):
        return "TextXRegistrationError"


ERR = Err()
RAISED = ("exc", "InjectedFactoryError")


def run(ctx):
    t = ctx.tape
    # ---- scripted entry-point table
    ep_l = []
    ep_g = []
    used = set()
    for i in range(t.draw(3, "n-ep-langs")):
        nm = t.pick(NAMES, "ep-lang-name")
        if nm.lower() in used or nm.lower() == "any":
            continue
        used.add(nm.lower())
        ep_l.append(EP(LanguageDesc(nm, pattern=t.pick(PATTERNS, "ep-pattern"), metamodel=Factory(ctx, "ep:" + nm)),
                       "proj" + str(i), "1." + str(i)))
    usedg = set()
    for i in range(t.draw(3, "n-ep-gens")):
        ln = t.pick(NAMES, "ep-gen-lang")
        tg = t.pick(TARGETS, "ep-gen-target")
        if (ln.lower(), tg.lower()) in usedg:
            continue
        usedg.add((ln.lower(), tg.lower()))
        ep_g.append(EP(GeneratorDesc(ln, tg, generator=_mkgen(ln, tg)), "gproj" + str(i), "2." + str(i)))

    def fake_entry_points(group=None, **kw):
        ctx.ev("entry_points", group)
        if group == "textx_languages":
            return list(ep_l)
        if group == "textx_generators":
            return list(ep_g)
        return []

    saved = reg.entry_points
    reg.entry_points = fake_entry_points
    reg.languages = None
    reg.generators = None
    reg.metamodels = {}
    m = Model([e.obj for e in ep_l], [e.obj for e in ep_g])
    states = set()
    pairs = set()
    nops = 4 + t.draw(27, "nops")
    ops_log = []
    try:
        for step in range(nops):
            op = t.pick(OPS, "op")
            args = draw_args(t, op, ctx)
            exp = apply_model(m, op, args)
            got = apply_real(op, args)
            ctx.ev("op", op, _show(args), show_res(exp))
            ops_log.append([op, _show(args)])
            why = compare(m, exp, got)
            if why:
                ctx.violate("C26", CLAUSE.get(op, "refinement"), op,
                            f"step {step}: {op}({_show(args)}): {why}; returned {show_res(got)}, the map model says "
                            f"{show_res(exp)}")
                break
            st = m.state()
            states.add(st)
            pairs.add((st, op))
            why = compare_views(m)
            if why:
                ctx.violate("C26", "registry-contents", op, f"step {step} after {op}({_show(args)}): {why}")
                break
    finally:
        reg.entry_points = saved
    ctx.sample = {"entry_points": {"languages": [e.obj.name for e in ep_l],
                                   "generators": [(e.obj.language, e.obj.target) for e in ep_g]},
                  "ops": ops_log[:40]}
    ctx.sets["model_states"] = [repr(s) for s in states]
    ctx.sets["state_op_pairs"] = [repr(p) for p in pairs]
    ctx.stats["steps"] += nops
    ctx.nontrivial = len(states) > 1
    ctx.sig = ops_log


def compare_views(m):
    """Registry contents against the model, read without side effects."""
    if m.langs is not None:
        if reg.languages is None:
            return "languages registry is uninitialised, model has " + str(list(m.langs))
        if list(reg.languages) != list(m.langs):
            return f"languages {list(reg.languages)} != model {list(m.langs)}"
        for k, r in m.langs.items():
            d = reg.languages[k]
            if r.desc is not None and d is not r.desc:
                return f"language {k}: descriptor is not the registered object"
            if (d.name, d.pattern) != (r.name, r.pattern):
                return f"language {k}: ({d.name},{d.pattern}) != model ({r.name},{r.pattern})"
    elif reg.languages is not None and list(reg.languages) != [d.name.lower() for d in m.ep_langs]:
        return f"languages {list(reg.languages)} while the model is cleared"
    if m.gens is not None:
        if reg.generators is None:
            return "generator registry is uninitialised"
        flat = sorted((l, tt) for l, ts in reg.generators.items() for tt in ts)
        want = sorted((l, tt) for l, ts in m.gens.items() for tt in ts)
        if flat != want:
            return f"generators {flat} != model {want}"
        for l, ts in m.gens.items():
            for tt, r in ts.items():
                d = reg.generators[l][tt]
                if r.desc is not None and d is not r.desc:
                    return f"generator {l}->{tt}: descriptor is not the registered object"
    if sorted(reg.metamodels) != sorted(m.cache):
        return f"metamodel cache {sorted(reg.metamodels)} != model {sorted(m.cache)}"
    for k in m.cache:
        if reg.metamodels[k] is not m.cache[k]:
            return f"cached metamodel of {k} is another object"
    return None


def _mkgen(ln, tg):
    def gen(*a, **k):
        return (ln, tg)
    return gen


def _show(args):
    out = []
    for a in args:
        if isinstance(a, LanguageDesc):
            out.append(f"LanguageDesc({a.name},{a.pattern})")
        elif isinstance(a, GeneratorDesc):
            out.append(f"GeneratorDesc({a.language},{a.target})")
        elif isinstance(a, Factory):
            out.append("bad-factory" if a.bad else ("flaky-factory:" + a.flaky if a.flaky else "factory"))
        elif isinstance(a, TextXMetaModel):
            out.append("metamodel-instance")
        elif callable(a):
            out.append("callable")
        else:
            out.append(repr(a))
    return ", ".join(out)


def show_res(r):
    if isinstance(r, tuple):
        return "(" + ", ".join(show_res(x) for x in r) + ")"
    if isinstance(r, list):
        return "[" + ", ".join(show_res(x) for x in r) + "]"
    if isinstance(r, TextXMetaModel):
        return "<metamodel>"
    if isinstance(r, Factory):
        return "<factory>"
    return repr(r)[:80]


OPS = [
    "register_language", "register_language", "register_language_desc", "register_generator", "register_generator",
    "clear_languages", "clear_generators", "language_descriptions", "generator_descriptions",
    "language_description", "generator_description", "generator_for_language_target", "languages_for_file",
    "language_for_file", "metamodel_for_language", "metamodel_for_language", "metamodel_for_language_kw",
    "metamodel_for_file", "metamodels_for_file",
]
CLAUSE = {
    "register_language": "duplicate-refused", "register_language_desc": "duplicate-refused",
    "register_generator": "duplicate-refused", "clear_languages": "clear", "clear_generators": "clear",
    "language_description": "case-insensitive-lookup", "generator_description": "case-insensitive-lookup",
    "generator_for_language_target": "case-insensitive-lookup", "languages_for_file": "pattern-match",
    "language_for_file": "exactly-one", "metamodel_for_language": "cached-instance",
    "metamodel_for_language_kw": "fresh-with-kwargs", "metamodel_for_file": "cached-instance",
    "metamodels_for_file": "cached-instance", "language_descriptions": "entry-points-survive",
    "generator_descriptions": "entry-points-survive",
}


def draw_args(t, op, ctx):
    if op in ("register_language", "register_language_desc"):
        nm = t.pick(NAMES, "name")
        pat = t.pick(PATTERNS, "pattern")
        kind = t.draw(6, "mm-kind")  # 0,1 factory; 2 instance; 3 bad factory; 4,5 factory failing for option k=2
        mmv = TextXMetaModel() if kind == 2 else Factory(ctx, nm, bad=(kind == 3),
                                                         flaky={4: "raise", 5: "bad"}.get(kind))
        usedl = ctx.__dict__.setdefault("used_lang_descs", [])
        if op == "register_language_desc":
            if usedl and t.chance(1, 4, "same-language-descriptor-again"):
                return [t.pick(usedl, "which-language-descriptor")]
            d = LanguageDesc(nm, pattern=pat, metamodel=mmv)
            usedl.append(d)
            return [d]
        return [nm, pat, mmv]
    if op == "register_generator":
        ln = t.pick(NAMES, "gen-lang")
        tg = t.pick(TARGETS, "gen-target")
        used = ctx.__dict__.setdefault("used_descs", [])
        if used and t.chance(1, 4, "same-descriptor-object-again"):
            # the very same descriptor object registered a second time (a plug-in set-up that runs twice)
            return [t.pick(used, "which-descriptor")]
        if t.chance(1, 2, "as-desc"):
            d = GeneratorDesc(ln, tg, generator=_mkgen(ln, tg))
            used.append(d)
            return [d]
        return [ln, tg, _mkgen(ln, tg)]
    if op in ("language_description", "metamodel_for_language"):
        return [t.pick(NAMES, "name")]
    if op == "metamodel_for_language_kw":
        return [t.pick(NAMES, "name"), {"k": t.draw(3, "kwv")}]
    if op in ("generator_description", "generator_for_language_target"):
        return [t.pick(NAMES, "name"), t.pick(TARGETS, "target"), t.chance(1, 2, "any-permitted")]
    if op in ("languages_for_file", "language_for_file", "metamodels_for_file"):
        return [t.pick(FILES + PATTERNS[:2], "file")]  # (a file name or a pattern string, never None)
    if op == "metamodel_for_file":
        return [t.pick(FILES, "file"), ({"k": 1} if t.chance(1, 3, "kw") else {})]
    return []


def apply_model(m, op, a):
    if op in ("register_language", "register_language_desc"):
        m.init_langs()
        if op == "register_language_desc":
            d = a[0]
            r = LRec(d.name, d.pattern, d.metamodel, d)
        else:
            r = LRec(a[0], a[1], a[2])
        if r.name.lower() in m.langs:
            return ERR
        m.langs[r.name.lower()] = r
        return None
    if op == "register_generator":
        m.init_gens()
        if isinstance(a[0], GeneratorDesc):
            r = GRec(a[0].language, a[0].target, a[0])
        else:
            r = GRec(a[0], a[1])
        lg = m.gens.setdefault(r.language.lower(), {})
        if r.target.lower() in lg:
            return ERR
        lg[r.target.lower()] = r
        return None
    if op == "clear_languages":
        m.langs = None
        m.cache = {}
        return None
    if op == "clear_generators":
        m.gens = None
        return None
    if op == "language_descriptions":
        m.init_langs()
        return ("keys", list(m.langs))
    if op == "generator_descriptions":
        m.init_gens()
        return ("gkeys", sorted((l, t) for l, ts in m.gens.items() for t in ts))
    if op == "language_description":
        m.init_langs()
        k = a[0].lower()
        return ("desc", k) if k in m.langs else ERR
    if op in ("generator_description", "generator_for_language_target"):
        m.init_gens()
        ln, tg, anyp = a[0].lower(), a[1].lower(), a[2]
        r = m.gens.get(ln, {}).get(tg)
        if r is None and anyp:
            r = m.gens.get("any", {}).get(tg)
        if r is None:
            return ERR
        return ("gdesc", (r.language.lower(), r.target.lower()))
    if op == "languages_for_file":
        m.init_langs()
        return ("keys", m.hits(a[0]))
    if op == "language_for_file":
        m.init_langs()
        hit = m.hits(a[0])
        return ("desc", hit[0]) if len(hit) == 1 else ERR
    if op == "metamodel_for_language":
        return ("mm", m.mm_for(a[0], {}))
    if op == "metamodel_for_language_kw":
        return ("mm", m.mm_for(a[0], a[1]))
    if op == "metamodel_for_file":
        m.init_langs()
        hit = m.hits(a[0])
        if len(hit) != 1:
            return ERR
        return ("mm", m.mm_for(m.langs[hit[0]].name, a[1]))
    if op == "metamodels_for_file":
        m.init_langs()
        out = []
        for k in m.hits(a[0]):
            e = m.mm_for(m.langs[k].name, {})
            out.append(e)
            if e is ERR or e[0] == "bad":
                break  # the real call stops at the first failure
        return ("mms", out)
    raise AssertionError(op)


def apply_real(op, a):
    try:
        if op == "register_language":
            reg.register_language(a[0], pattern=a[1], metamodel=a[2])
            return None
        if op == "register_language_desc":
            reg.register_language(a[0])
            return None
        if op == "register_generator":
            if isinstance(a[0], GeneratorDesc):
                reg.register_generator(a[0])
            else:
                reg.register_generator(a[0], a[1], generator=a[2])
            return None
        if op == "clear_languages":
            reg.clear_language_registrations()
            return None
        if op == "clear_generators":
            reg.clear_generator_registrations()
            return None
        if op == "language_descriptions":
            return ("keys", list(reg.language_descriptions()))
        if op == "generator_descriptions":
            g = reg.generator_descriptions()
            return ("gkeys", sorted((l, t) for l, ts in g.items() for t in ts))
        if op == "language_description":
            return ("desc", reg.language_description(a[0]).name.lower())
        if op == "generator_description":
            d = reg.generator_description(a[0], a[1], any_permitted=a[2])
            return ("gdesc", (d.language.lower(), d.target.lower()))
        if op == "generator_for_language_target":
            ln, tg = reg.generator_for_language_target(a[0], a[1], any_permitted=a[2])()
            return ("gdesc", (ln.lower(), tg.lower()))
        if op == "languages_for_file":
            return ("keys", [d.name.lower() for d in reg.languages_for_file(a[0])])
        if op == "language_for_file":
            return ("desc", reg.language_for_file(a[0]).name.lower())
        if op == "metamodel_for_language":
            return ("mm", reg.metamodel_for_language(a[0]))
        if op == "metamodel_for_language_kw":
            return ("mm", reg.metamodel_for_language(a[0], **a[1]))
        if op == "metamodel_for_file":
            return ("mm", reg.metamodel_for_file(a[0], **a[1]))
        if op == "metamodels_for_file":
            return ("mms", reg.metamodels_for_file(a[0]))
    except TextXRegistrationError:
        return ERR
    except InjectedFactoryError:
        return RAISED
    except Exception as e:  # anything else is an outcome to be judged, not a crash of the harness
        return ("crash", type(e).__name__, str(e)[:100])
    raise AssertionError(op)


def _cmp_mm(m, e, got_mm):
    """one metamodel expectation against the returned object (None when the call raised)"""
    if e is ERR:
        return None if got_mm is ERR else "expected TextXRegistrationError"
    if e[0] == "is":
        return None if got_mm is e[1] else "expected the cached / registered instance"
    f, n, kwargs = e[1], e[2], e[3]
    if len(f.calls) != n:
        return f"factory called {len(f.calls)} times in total, expected {n}"
    if f.calls[-1] != kwargs:
        return f"factory got {f.calls[-1]}, expected {kwargs}"
    if e[0] == "bad":
        return None if got_mm is ERR else "a factory returning a non-metamodel must be refused"
    if e[0] == "raises":
        return None if got_mm is RAISED else "the factory's own exception must reach the caller"
    if got_mm is ERR or got_mm is not f.made[-1]:
        return "expected the fresh instance the factory just returned"
    m.cache[e[4]] = got_mm
    return None


def compare(m, exp, got):
    if isinstance(got, tuple) and got and got[0] == "crash":
        return f"raised {got[1]}: {got[2]}"
    if got is RAISED:
        if isinstance(exp, tuple) and exp[0] == "mm" and exp[1] is not ERR:
            return _cmp_mm(m, exp[1], RAISED)
        return "the factory's exception escaped from an operation that should not have called it with that option"
    if exp is ERR or got is ERR:
        if exp is ERR and got is ERR:
            return None
        if exp is not ERR and isinstance(exp, tuple) and exp[0] == "mm":
            return _cmp_mm(m, exp[1], ERR)
        if exp is not ERR and isinstance(exp, tuple) and exp[0] == "mms":
            # every expectation but the last one succeeded silently, the last one is the failure
            for e in exp[1][:-1]:
                w = _cmp_mm(m, e, e[1] if e[0] == "is" else (e[1].made[-1] if e[1].made else None))
                if w:
                    return w
            return _cmp_mm(m, exp[1][-1], ERR) if exp[1] else "expected a list"
        return "exception mismatch"
    if exp is None or got is None:
        return None if (exp is None and got is None) else "result mismatch"
    if exp[0] != got[0]:
        return "result kind mismatch"
    if exp[0] in ("keys", "gkeys", "desc", "gdesc"):
        return None if exp == got else "result mismatch"
    if exp[0] == "mm":
        return _cmp_mm(m, exp[1], got[1])
    if exp[0] == "mms":
        if len(exp[1]) != len(got[1]):
            return "list length mismatch"
        for e, g in zip(exp[1], got[1]):
            w = _cmp_mm(m, e, g)
            if w:
                return w
        return None
    return "unknown"


RULES = {
    "C26": "one run = a scripted entry-point table (0-2 languages, 0-2 generators) and a history of 4-30 operations "
           "drawn from 17 public functions of textx.registration over 6 names (case variants), 4 targets, 4 patterns, 6 "
           "file names; languages registered with a metamodel instance, a counting factory or a factory returning a "
           "non-metamodel; every step compared with a map model (results, exception type, identities, factory call "
           "count and kwargs) and the registry/caches compared after every step; non-trivial = more than one model "
           "state visited; distinct = distinct operation sequences; distinct model states and (state, operation) pairs "
           "are counted over the batch (coverage.distinct_sets) - a measured count, not exhaustiveness",
}
ASSUMPTIONS = {
    "C26": ["patterns are strings (a None pattern is outside the statement)",
            "entry-point names are unique up to case (duplicates inside the entry-point table are not generated)"],
}
