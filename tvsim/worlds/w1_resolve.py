"""
W1 - resolve world (C08, C09, C34).  DESIGN.md section 3/W1 and 4.

One run = one generated world (1-3 virtual files, <= 16 references), one
postponement schedule imposed through a scripted scope provider, one load of
the main file, then the oracles of the focused property.
"""

import copy
import os
import re

import textx  # noqa  (tvsim.seams.boot() ran before this import)
from textx import metamodel_from_str
from textx.exceptions import TextXError, TextXSemanticError
from textx.model import get_model
from textx.scoping import ModelLoader, Postponed
from textx.scoping.tools import needs_to_be_resolved
import textx.scoping.providers as sp
from textx.scoping.rrel import create_rrel_scope_provider

from ..core import Budget
from ..dump import dump_model
from ..gen import gen_world, grammar, locate, walk_model
from ..seams import SIMFS

FAMILIES = ["plainuri", "fqnuri", "rrel", "plain", "fqn", "plaingr"]
MULTIFILE = {"plainuri", "fqnuri", "rrel", "plaingr"}
QUALIFIED = {"fqnuri", "rrel", "fqn"}


def base_provider(family, root=None):
    if family == "plaingr":
        # every file of the episode's directory is visible from every model; the metamodel has a global repository
        return sp.PlainNameGlobalRepo(root + "/*.m")
    if family == "plain":
        return sp.PlainName()
    if family == "fqn":
        return sp.FQN()
    if family == "plainuri":
        return sp.PlainNameImportURI()
    if family == "fqnuri":
        return sp.FQNImportURI()
    if family == "rrel":
        return create_rrel_scope_provider("+m:^items*")
    raise AssertionError(family)


class Scheduler:
    """Owns the postponement plan of every reference (keyed by file+offset)."""

    def __init__(self, ctx, world, budget):
        self.ctx = ctx
        self.world = world
        self.by_pos = {(r.owner.file, r.pos): r for r in world.refs}
        self.resolved = set()
        self.calls = {}
        self.budget = budget
        self.trace = []
        self.postponements = 0
        self.order_at_risk = 0
        self.enabled = True

    def lookup(self, model, obj_ref):
        fn = getattr(model, "_tx_filename", None) or getattr(self, "anon_file", None) or self.world.main
        return self.by_pos.get((fn, obj_ref.position))

    def decide(self, ref, obj=None):
        """True = answer now, False = Postponed."""
        n = self.calls[ref.key]
        plan = ref.plan
        if not self.enabled or plan[0] == "now":
            return True
        if plan[0] == "after-attr":
            # the way real providers wait: ask textX whether the attribute holding the awaited reference still has
            # unresolved references (textx.scoping.tools.needs_to_be_resolved), not a bookkeeping of our own
            models = collect_models(get_model(obj))
            by_key = getattr(self, "by_key", None)
            if by_key is None:
                by_key = self.by_key = {r.key: r for r in self.world.refs}
            for k in plan[1]:
                d = by_key[k]
                m = models.get(d.owner.file)
                if m is None:
                    return False
                if needs_to_be_resolved(locate(m, d.owner.path()), d.attr):
                    return False
            return True
        if plan[0] == "never":
            return False
        if plan[0] == "round":
            return n >= plan[1]
        if plan[0] == "after":
            return all(k in self.resolved for k in plan[1])
        raise AssertionError(plan)

    def note_resolved(self, ref):
        self.resolved.add(ref.key)
        if ref.idx is not None:
            for other in ref.owner.refs:
                if other.attr == ref.attr and other.idx < ref.idx and other.key not in self.resolved:
                    self.order_at_risk += 1
                    break


class ScriptedProvider(ModelLoader):
    """Wraps a base provider; consults the scheduler on every call."""

    def __init__(self, base, sched, ctx, on_parsed=None):
        ModelLoader.__init__(self)
        self.base = base
        self.sched = sched
        self.ctx = ctx
        self.on_parsed = on_parsed

    def load_models(self, model, encoding="utf-8"):
        fn = getattr(model, "_tx_filename", None)
        self.ctx.ev("parsed", os.path.basename(fn) if fn else "<str>")
        if not hasattr(type(model), "_tx_attrs"):
            return  # a primitive root (abstract root rule with a match alternative): nothing to load or snapshot
        if self.on_parsed:
            self.on_parsed(model)
        if isinstance(self.base, ModelLoader):
            self.base.load_models(model, encoding=encoding)

    def __call__(self, obj, attr, obj_ref):
        s = self.sched
        ref = s.lookup(get_model(obj), obj_ref)
        if ref is None:
            self.ctx.ev("prov", "?", obj_ref.obj_name, obj_ref.position)
            return self.base(obj, attr, obj_ref)
        s.calls[ref.key] = s.calls.get(ref.key, 0) + 1
        if s.calls[ref.key] > s.budget:
            self.ctx.ev("prov", ref.key, "BUDGET")
            raise Budget(ref.key)
        if not s.decide(ref, obj):
            s.postponements += 1
            s.trace.append((ref.key, "P"))
            self.ctx.ev("prov", ref.key, "postponed")
            return Postponed()
        real = getattr(ref, "real_name", None)
        if real is not None:
            # contextual name: this reference's text stands for `real` (see episode())
            obj_ref = copy.copy(obj_ref)
            obj_ref.obj_name = real
        res = self.base(obj, attr, obj_ref)
        if res is None:
            s.trace.append((ref.key, "N"))
            self.ctx.ev("prov", ref.key, "none")
        elif type(res) is Postponed:
            s.trace.append((ref.key, "BP"))
            self.ctx.ev("prov", ref.key, "base-postponed")
        else:
            s.trace.append((ref.key, "R"))
            self.ctx.ev("prov", ref.key, "resolved")
            s.note_resolved(ref)
        return res


class InnerScripted(ScriptedProvider):
    """The scripted provider used as the *inner* provider of ImportURI (the place of PlainName / FQN): ImportURI asks
    it for the referencing model first (obj = the referencing object) and, unless that answer is truthy - Postponed
    is - once per loaded model and builtin model (obj = that model's root)."""

    def __init__(self, base, sched, ctx):
        ScriptedProvider.__init__(self, base, sched, ctx)
        self.current = None

    def __call__(self, obj, attr, obj_ref):
        if get_model(obj) is not obj:
            self.current = (obj_ref, self.sched.lookup(get_model(obj), obj_ref))
            return ScriptedProvider.__call__(self, obj, attr, obj_ref)
        res = self.base(obj, attr, obj_ref)
        cur = self.current
        if res is not None and type(res) is not Postponed and cur is not None and cur[0] is obj_ref and cur[1] is not None:
            self.sched.trace.append((cur[1].key, "R-imported"))
            self.ctx.ev("prov", cur[1].key, "resolved-in-loaded-model")
            self.sched.note_resolved(cur[1])
        return res


def make_provider(family, root, sched, ctx, inner):
    if inner:
        return sp.ImportURI(InnerScripted(sp.PlainName() if family == "plainuri" else sp.FQN(), sched, ctx))
    return ScriptedProvider(base_provider(family, root), sched, ctx)


def fixpoint(refs):
    done = set()
    changed = True
    by_key = {r.key: r for r in refs}

    def attr_done(k):
        # waiting for a reference by asking textX about its attribute = waiting for every reference of that attribute
        d = by_key.get(k)
        if d is None:
            return True
        return all(x.key in done for x in d.owner.refs if x.attr == d.attr)

    while changed:
        changed = False
        for r in refs:
            if r.key in done:
                continue
            p = r.plan
            if p[0] == "never":
                continue
            if p[0] == "after" and not all(k in done for k in p[1]):
                continue
            if p[0] == "after-attr" and not all(attr_done(k) for k in p[1]):
                continue
            done.add(r.key)
            changed = True
    return done


def draw_schedule(t, refs, mode):
    """mode: eager | dag | deps | rounds"""
    n = len(refs)
    if mode == "eager" or n == 0:
        for r in refs:
            r.plan = ("now",)
        return
    if mode == "rounds":
        k = 1 + t.draw(min(4, n), "nrounds")
        # dense: round j (1..k) gets at least one reference
        order = t.perm(n, "round-seed")
        for j, i in enumerate(order):
            rd = j + 1 if j < k else 1 + t.draw(k, "round")
            refs[i].plan = ("round", rd) if rd > 1 else ("now",)
        return
    prio = t.perm(n, "prio")  # prio[i] = position of refs[i]... used for dag
    rank = {i: p for p, i in enumerate(prio)}
    for i, r in enumerate(refs):
        kind = t.draw(8, "plan")  # 0..3 now, 4..6 after, 7 never (deps only)
        if kind <= 3:
            r.plan = ("now",)
        elif kind <= 6 or mode == "dag":
            nd = 1 + t.draw(2, "ndeps")
            deps = []
            for _ in range(nd):
                # bias: a later element of the same list (order at risk)
                sib = [x for x in r.owner.refs if r.idx is not None and x.attr == r.attr and x.idx > r.idx]
                if sib and t.chance(1, 2, "dep-sibling"):
                    d = t.pick(sib, "dep-sib")
                    di = refs.index(d)
                else:
                    di = t.draw(n, "dep")
                if mode == "dag":
                    # only depend on references of lower rank => acyclic
                    if rank[di] >= rank[i]:
                        continue
                deps.append(refs[di].key)
            r.plan = ("after", sorted(set(deps))) if deps else ("now",)
        else:
            r.plan = ("never",)


def expected_target_obj(models_by_file, ent):
    return locate(models_by_file[ent.file], ent.path())


def collect_models(model):
    ms = {}
    rep = getattr(model, "_tx_model_repository", None)
    if rep is not None:
        for m in rep.all_models:
            fn = getattr(m, "_tx_filename", None)
            if fn:
                ms[fn] = m
    fn = getattr(model, "_tx_filename", None)
    if fn:
        ms[fn] = model
    return ms


class _NullRec:
    """W2's class factory reports to a recorder; W1 only needs the classes."""

    def on_new(self, o):
        pass

    def on_init(self, o, name, kw):
        pass


UCLS_VARIANTS = ["plain", "own-dunders", "inherited-dunders", "dataclass", "falsy", "value-eq"]  # variants that accept textX's _tx_* attributes


def draw_user_classes(t):
    """A drawn subset of the item grammar's rules gets user classes: during a load textX keeps their attributes in a
    per-class side table and runs __init__ only after resolution, so the resolver reads and writes reference lists of
    such objects through another path than for plain textX classes."""
    if not t.chance(1, 3, "user-classes"):
        return []
    spec = []
    for name in ("Use", "Def", "Box", "Model"):
        if t.chance(1, 2, "ucls-" + name):
            spec.append((name, t.pick(UCLS_VARIANTS, "ucls-variant")))
    return spec


def make_user_classes(spec):
    from .w2_lifecycle import make_class

    return [make_class(n, v, _NullRec()) for n, v in spec]


def run(ctx):
    """One run = one metamodel, 1-3 successive loads of freshly generated worlds
    (earlier models are dropped: ids get recycled, per-load bookkeeping must not
    leak from one load into the next)."""
    import gc

    t = ctx.tape
    prop = ctx.prop
    family = t.pick(FAMILIES, "family")
    tools = prop == "C34" or t.chance(1, 4, "tools")
    memo = t.chance(1, 4, "memoization")
    nloads = 1 + (t.draw(5, "nloads") if t.chance(1, 3, "several-loads") else 0)
    same_world = t.chance(1, 2, "reload-the-same-files")  # identical allocation pattern: ids get recycled
    if nloads > 1 and same_world:
        nloads = 4 + t.draw(9, "nreloads")  # many identical reloads make id recycling (near) certain in any process
    kw = {"global_repository": True} if family == "plaingr" else {}
    # the match rule of the references may have any name - also one that textX uses internally for parse-tree nodes
    ctx.qn = t.pick(["QN", "QN", "QN", "sep"], "match-rule-name")
    if ctx.qn != "QN":
        ctx.probe("match-rule-called-sep")
    ucls = draw_user_classes(t)
    ctx.ucls = ucls
    if ucls:
        kw["classes"] = make_user_classes(ucls)
        ctx.probe("user-classes")
    # a builtin model parsed from a string (no file name): its definitions are visible from every file
    ctx.builtin = None
    if family in ("plainuri", "fqnuri") and t.chance(1, 4, "builtin-model"):
        from textx.scoping import ModelRepository
        from ..gen import Ent

        nb = 1 + t.draw(3, "n-builtin-defs")
        btext = " ".join(f"def bi{i}" for i in range(nb))
        bm = metamodel_from_str(grammar(qn=ctx.qn)).model_from_str(btext)
        repo = ModelRepository()
        repo.add_model(bm)
        ents = []
        for i in range(nb):
            e = Ent("def", f"bi{i}", None, None)
            e.idx = i
            e.start, e.stop = i * 8, i * 8 + 7
            ents.append(e)
        ctx.builtin = {"model": bm, "repo": repo, "ents": ents}
        kw["builtin_models"] = repo
        ctx.probe("builtin-model-without-file-name")
    # a `builtins` dictionary whose keys are names the models define themselves (d0, d1, ...): the fall-back must never
    # win over a model object, whatever the provider answers first (Postponed, later the object) - and a reference
    # that never resolves must not silently become the builtin
    ctx.builtins_dict = None
    if family in ("plain", "plainuri") and any(n == "Def" for n, _ in ucls) and t.chance(1, 2, "builtins-dict"):
        defcls = next(c for c in kw["classes"] if c.__name__ == "Def")
        ctx.builtins_dict = {f"d{i}": defcls(parent=None, name=f"d{i}", v=None, tag=None) for i in range(6)}
        kw["builtins"] = ctx.builtins_dict
        ctx.probe("builtins-dictionary-shadowed-by-model-objects")
    # two registered languages: files f<odd>.n belong to a second metamodel instance with its *own* tool-support flag
    ctx.lang2 = None
    if family in ("plainuri", "fqnuri") and t.chance(1, 4, "two-languages"):
        flags = t.pick([(True, True), (False, True), (True, False)], "tools-flags") if (prop == "C34" or tools) else \
            (False, t.chance(1, 2, "tools-second-language"))
        tools = flags[0]
        ctx.lang2 = {"tools": flags[1]}
        ctx.probe("two-languages")
    mm = metamodel_from_str(grammar(qn=ctx.qn), textx_tools_support=tools, memoization=memo, **kw)
    sigs = []
    samples = []
    nontrivial = False
    if t.chance(1, 5, "template-R2"):
        # natural postponement: an RREL reference that navigates through other references
        run_r2(ctx, t, prop, tools, memo)
        return
    for rep in range(nloads):
        ctx.nontrivial = False
        if rep > 0 and same_world:
            # replay the draws of the first episode: the same files and schedule again on the same metamodel
            sub = type(t)(values=t.rec[ep_start:ep_end])
            ok = episode(ctx, sub, prop, family, tools, memo, mm, rep)
        else:
            ep_start = len(t.rec)
            ok = episode(ctx, t, prop, family, tools, memo, mm, rep)
            ep_end = len(t.rec)
        nontrivial = nontrivial or ctx.nontrivial
        sigs.append(ctx.sig)
        samples.append(ctx.sample)
        if rep + 1 < nloads:
            ctx.probe("further-load-on-the-same-metamodel")
            gc.collect()
        if not ok or ctx.violations:
            break
    ctx.nontrivial = nontrivial
    ctx.sig = sigs
    ctx.sample = samples[0] if len(samples) == 1 else {"loads": samples}


def episode(ctx, t, prop, family, tools, memo, mm, rep):
    nfiles = 1 + t.draw(3, "nfiles") if family in MULTIFILE else 1
    root = f"/sim/w1/r{rep}"
    # the scripted provider *inside* ImportURI (where PlainName / FQN sit), with names the importing file shadows
    inner = family in ("plainuri", "fqnuri") and t.chance(1, 3, "scripted-provider-inside-importuri")
    w = gen_world(t, root, nfiles=nfiles, qualified=family in QUALIFIED, max_refs=16,
                  alt_multipart=family == "rrel",  # FQN splits at '.', only RREL honours the match rule's split
                  shadows=inner, second_ext=".n" if ctx.lang2 else None,
                  builtin_defs=ctx.builtin["ents"] if ctx.builtin else ())
    if inner:
        ctx.probe("scripted-provider-inside-importuri")
        if w.shadow_defs:
            ctx.probe("name-shadowed-by-the-importing-file")
    if prop == "C34" and not inner and family != "rrel" and t.chance(1, 3, "contextual-name"):
        # a context-dependent name (what `self`/`this`-like names of a custom provider are): several references of one
        # file are written with the same text and the provider maps each to its own target - the definition recorded
        # for an entry must be that of the object *this* reference resolved to, not of the first one with that text
        cl = set(w.closure() if family != "plaingr" else w.files)
        byfile = {}
        for r in w.refs:
            if r.attr != "alt" and r.text_override is None and r.target is not None and r.owner.file in cl:
                byfile.setdefault(r.owner.file, []).append(r)
        cands = [rs for rs in byfile.values() if len({id(r.target) for r in rs}) >= 2]
        if cands:
            rs = t.pick(cands, "contextual-name-file")
            k = t.draw(len(rs), "contextual-name-first")
            rs = rs[k:] + rs[:k]
            chosen = [rs[0]] + [r for r in rs[1:] if r.target is not rs[0].target][:1 + t.draw(2, "contextual-name-more")]
            for r in chosen:
                r.real_name = r.name
                r.text_override = "zq7"
            w.render()
            ctx.probe("one-reference-text-naming-different-objects")
    w.install(SIMFS)
    closure = w.closure() if family != "plaingr" else list(w.files)
    # GlobalRepo family: the main text may be given as a string without a file name (then it is not a file at all)
    anon = family == "plaingr" and nfiles > 1 and t.chance(1, 2, "anonymous-main")
    if anon and any(r.owner.file != w.main and r.target.file == w.main for r in w.refs):
        anon = False  # a string model is not among the pattern's files: nobody else can refer to its definitions
    if anon:
        del SIMFS.files[w.main]
    refs = [r for r in w.refs if r.owner.file in closure]
    if prop == "C09":
        mode = t.pick(["deps", "dag", "rounds", "deps"], "mode")
    else:
        mode = t.pick(["dag", "rounds", "dag", "eager"], "mode")
    draw_schedule(t, refs, mode)
    if mode in ("deps", "dag") and not anon and t.chance(1, 3, "provider-asks-textx"):
        for r in refs:
            if r.plan[0] == "after":
                r.plan = ("after-attr", r.plan[1])
        ctx.probe("provider-waits-by-asking-textx")
    for r in w.refs:
        if r.owner.file not in closure:
            r.plan = ("now",)
    N = len(refs)
    budget = N + 2
    sched = Scheduler(ctx, w, budget)
    ctx.sample = {
        "family": family,
        "mode": mode,
        "tools": tools,
        "user_classes": [list(x) for x in ctx.ucls],
        "files": {os.path.basename(p): fe.text for p, fe in w.files.items()},
        "plans": {r.key: r.plan for r in refs if r.plan != ("now",)},
    }

    def build(scheduler):
        m2 = metamodel_from_str(grammar(qn=ctx.qn), textx_tools_support=tools, memoization=memo,
                                **({"global_repository": True} if family == "plaingr" else {}),
                                **({"builtin_models": ctx.builtin["repo"]} if ctx.builtin else {}),
                                **({"classes": make_user_classes(ctx.ucls)} if ctx.ucls else {}))
        m2.register_scope_providers({"*.*": make_provider(family, root, scheduler, ctx, inner)})
        second_language(scheduler, m2)
        return m2

    def second_language(scheduler, first_mm):
        """(re-)register both languages: *.m files belong to `first_mm` wherever they are imported from, *.n files to
        a fresh metamodel of their own"""
        if not ctx.lang2:
            return
        mn = metamodel_from_str(grammar(qn=ctx.qn), textx_tools_support=ctx.lang2["tools"], memoization=memo,
                                **({"builtin_models": ctx.builtin["repo"]} if ctx.builtin else {}),
                                **({"classes": make_user_classes(ctx.ucls)} if ctx.ucls else {}))
        mn.register_scope_providers({"*.*": make_provider(family, root, scheduler, ctx, inner)})
        textx.clear_language_registrations()
        textx.register_language("lang-m", pattern="*.m", metamodel=first_mm)
        textx.register_language("lang-n", pattern="*.n", metamodel=mn)

    def load(the_mm, scheduler):
        scheduler.anon_file = w.main if anon else None
        if anon:
            return the_mm.model_from_str(w.files[w.main].text)
        return the_mm.model_from_file(w.main)

    # the same metamodel serves every load of the run; only the provider (and its schedule) is re-registered
    mm.register_scope_providers({"*.*": make_provider(family, root, sched, ctx, inner)})
    second_language(sched, mm)
    fx = fixpoint(refs) if mode != "rounds" else {r.key for r in refs}
    expect_ok = len(fx) == N
    ctx.ev("world", family, mode, N, expect_ok)
    outcome = None
    model = None
    try:
        model = load(mm, sched)
        outcome = "ok"
    except Budget as b:
        outcome = "budget"
        ctx.violate("C09", "non-termination", family,
                    f"provider for {b.args[0]} called more than N+2={budget} times")
    except Exception as e:  # a non-textX exception is judged by the oracles below like any other error
        outcome = "error"
        err = e
    ctx.ev("outcome", outcome)
    ctx.stats["steps"] += sum(sched.calls.values())
    ctx.stats["postponements"] += sched.postponements
    if sched.order_at_risk:
        ctx.probe("list-element-postponed-while-later-resolved")
    if nfiles > 1:
        ctx.probe("multi-file")
    if getattr(w, "repeated_targets", False):
        ctx.probe("list-with-a-repeated-target")
    if getattr(w, "two_lists", False):
        ctx.probe("object-with-two-reference-lists")
    if getattr(w, "split_lists", False):
        ctx.probe("list-assigned-at-two-places-of-the-rule")
    if outcome == "error":
        ctx.probe("load-failed")
    ctx.sig = [family, mode, sched.trace]
    if outcome == "budget":
        return False

    # ---------------- C09 verdict / failure report
    if expect_ok and outcome != "ok":
        ctx.violate("C09", "verdict", f"{family}/{mode}/spurious-failure",
                    f"fixpoint covers all {N} references but the load failed: {err!r}")
        return False
    if not expect_ok:
        if outcome == "ok":
            ctx.violate("C09", "verdict", f"{family}/{mode}/spurious-success",
                        "some references can never resolve but the load succeeded")
            return False
        missing = sorted(r.name for r in refs if r.key not in fx)
        msg = getattr(err, "message", str(err))
        if not isinstance(err, TextXSemanticError) or not msg.startswith("Unresolvable cross references"):
            ctx.violate("C09", "failure-report", f"{family}/wrong-error",
                        f"expected 'Unresolvable cross references', got {err!r}")
        else:
            named = sorted(re.findall(r'"([^"]+)" of class', msg))
            if named != missing:
                ctx.violate("C09", "failure-report", f"{family}/names",
                            f"error names {named}, unresolvable are {missing}")
        if prop == "C09":
            ctx.nontrivial = True
        return True

    # ---------------- success path
    models = collect_models(model)
    if ctx.builtin:
        models[None] = ctx.builtin["model"]
    if anon:
        models[w.main] = model
        ctx.probe("anonymous-main-with-global-repository")
    for f in closure:
        if f not in models:
            ctx.violate("C09", "verdict", f"{family}/missing-model", f"no model for {f} after a successful load")
            return False
    # per reference: resolved to the expected target
    for u in w.uses:
        if u.file not in closure:
            continue
        uo = locate(models[u.file], u.path())
        for la in ("refs", "more"):
            lst = [r for r in u.refs if r.attr == la]
            exp = [expected_target_obj(models, r.target) for r in lst]
            got = list(getattr(uo, la))
            bad = [x for x in got if type(x).__name__ in ("ObjCrossRef", "Postponed")]
            if bad:
                ctx.violate("C09", "result-independent-of-order", f"{family}/unresolved-left",
                            f"{u.sid()}.{la} holds {type(bad[0]).__name__}")
            if sorted(map(id, got)) != sorted(map(id, exp)):
                ctx.violate("C09", "result-independent-of-order", f"{family}/list-content",
                            f"{u.sid()}.{la} = {[getattr(x, 'name', x) for x in got]}, expected (any order) "
                            f"{[x.name for x in exp]}")
                # "the resolved list contains the targets": a list that lost or gained elements is not that list either
                ctx.violate("C08", "content", f"{family}/{mode}",
                            f"{u.sid()}.{la} = {[getattr(x, 'name', x) for x in got]}, the references in the text are "
                            f"{[x.name for x in exp]}")
            elif [id(x) for x in got] != [id(x) for x in exp]:
                ctx.violate("C08", "order", f"{family}/{mode}",
                            f"{u.sid()}.{la} = {[x.name for x in got]}, textual order is {[x.name for x in exp]}")
                # the eager schedule gives the textual order, so this result depends on the schedule taken
                ctx.violate("C09", "result-independent-of-order", f"{family}/list-order",
                            f"{u.sid()}.{la} = {[x.name for x in got]} under this schedule, {[x.name for x in exp]} under "
                            f"the eager one")
        for attr in ("one", "opt", "alt"):
            rr = [r for r in u.refs if r.attr == attr]
            val = getattr(uo, attr)
            if rr:
                if val is not expected_target_obj(models, rr[0].target):
                    ctx.violate("C09", "result-independent-of-order", f"{family}/scalar",
                                f"{u.sid()}.{attr} = {val!r}, expected {rr[0].target.name}")
            elif val is not None:
                ctx.violate("C09", "result-independent-of-order", f"{family}/scalar",
                            f"{u.sid()}.{attr} = {val!r}, expected None")

    if prop == "C09":
        ctx.nontrivial = sched.postponements > 0
        # schedule independence against the eager schedule on a fresh metamodel
        eager = Scheduler(ctx, w, 10 ** 9)
        eager.enabled = False
        ctx.ev("eager-reference")
        mm2 = build(eager)
        try:
            m2 = load(mm2, eager)
            d1 = dump_model(model, reflists_as_sets=True)
            d2 = dump_model(m2, reflists_as_sets=True)
            if d1 != d2:
                ctx.violate("C09", "result-independent-of-order", f"{family}/dump",
                            "model under the schedule differs from the model under the eager schedule")
        except Exception as e:
            ctx.violate("C09", "result-independent-of-order", f"{family}/eager-fails",
                        f"eager schedule fails: {e!r}")
    elif prop == "C08":
        ctx.nontrivial = sched.order_at_risk > 0
    if prop == "C34" or tools or (ctx.lang2 and ctx.lang2["tools"]):
        # each model is judged by the flag of its own language
        with_tools = [f for f in closure if (ctx.lang2["tools"] if (ctx.lang2 and f.endswith(".n")) else tools)]
        if ctx.lang2 and ctx.lang2["tools"] != tools and any(f.endswith(".n") for f in closure):
            ctx.probe("languages-with-different-tool-support-flags")
        check_tools(ctx, w, models, with_tools, family, sched, w.main if anon else None)
    return True


R2_GRAMMAR = """
Model: groups*=Group classes+=Class calls*=Call;
Group: head=Class 'also' bases+=[Class][','] ';';
Class: 'class' name=ID ('extends' bases+=[Class][','])? '{' methods*=Method '}';
Method: 'm' name=ID;
Call: 'call' name=ID ':' cls=[Class] '.' meth=[Method|ID|.~cls.(~bases)*.methods];
"""


def run_r2(ctx, t, prop, tools, memo):
    """Template R2.  `bases` and `cls` references are answered by the scripted provider under a drawn schedule;
    `meth` uses the RREL expression of the grammar, which postpones by itself while the references it navigates
    through (`cls`, and every `bases` list on the way) are unresolved.  Only schedules under which everything is
    resolvable are drawn; method names are unique within every inheritance closure, so the expected target does not
    depend on the order in which RREL expands `(~bases)*`."""
    from ..gen import Ent, Ref

    path = "/sim/w1/r2.m"
    ncls = 2 + t.draw(5, "r2-nclasses")
    classes = []
    for i in range(ncls):
        c = Ent("class", f"C{i}", path, None)
        c.bases = []
        c.methods = []
        # acyclic inheritance: bases among the classes declared so far - or later in the text (forward reference)
        classes.append(c)
    order = t.perm(ncls, "r2-rank")  # rank[i] < rank[j] => i may be a base of j
    rank = {c: order[i] for i, c in enumerate(classes)}
    mcount = [0]
    for c in classes:
        cands = [d for d in classes if rank[d] < rank[c]]
        nb = t.draw(min(3, len(cands)) + 1, "r2-nbases")
        pick = t.perm(len(cands), "r2-bases")[:nb]
        c.bases = [cands[k] for k in pick]

    def closure(c, seen=None):
        seen = seen if seen is not None else []
        if c not in seen:
            seen.append(c)
            for b in c.bases:
                closure(b, seen)
        return seen

    def descendants(c):
        return [d for d in classes if c in closure(d)]

    for c in classes:
        for _ in range(t.draw(3, "r2-nmethods")):
            # a fresh name: unique everywhere, hence unique in every closure
            m = Ent("method", f"m{mcount[0]}", path, c)
            mcount[0] += 1
            c.methods.append(m)
    calls = []
    for k in range(1 + t.draw(4, "r2-ncalls")):
        c = t.pick(classes, "r2-call-class")
        ms = [m for d in closure(c) for m in d.methods]
        if not ms:
            continue
        call = Ent("call", f"k{k}", path, None)
        call.cls = c
        call.meth = t.pick(ms, "r2-call-method")
        calls.append(call)
    # ---- groups: an object that starts at the same offset as the class it contains, with a reference list of the
    # same attribute name (per-list bookkeeping must not be keyed by start offset + attribute name)
    groups = []
    ng = t.draw(3, "r2-ngroups")
    heads = t.perm(ncls, "r2-group-heads")[:min(ng, ncls - 1)]
    for gi, hi in enumerate(heads):
        g = Ent("group", f"G{gi}", path, None)
        g.head = classes[hi]
        others = [c for c in classes if c is not g.head]
        nb = 1 + t.draw(min(3, len(others)), "r2-group-nbases")
        g.bases = [others[k] for k in t.perm(len(others), "r2-group-bases")[:nb]]
        groups.append(g)
    # ---- text (calls may come before the classes: forward references everywhere)
    out = []
    pos = [0]
    seps = [t.pick([" ", "\n", "  "], "r2-sep") for _ in range(3)]
    ntok = [0]

    def T(s_):
        a = pos[0]
        sep = seps[ntok[0] % 3]
        ntok[0] += 1
        out.append(s_ + sep)
        pos[0] += len(s_) + len(sep)
        return a

    refs = []

    def emit_class(c):
        c.start = T("class")
        T(c.name)
        if c.bases:
            T("extends")
            for j, b in enumerate(c.bases):
                if j:
                    T(",")
                r = Ref(c, "bases", j, b)
                r.text = r.name = b.name
                r.pos = T(b.name)
                c.refs.append(r)
                refs.append(r)
        T("{")
        for m in c.methods:
            m.start = T("m")
            T(m.name)
        T("}")

    in_group = {id(g.head) for g in groups}
    for g in groups:
        emit_class(g.head)
        T("also")
        for j, b in enumerate(g.bases):
            if j:
                T(",")
            r = Ref(g, "bases", j, b)
            r.text = r.name = b.name
            r.pos = T(b.name)
            g.refs.append(r)
            refs.append(r)
        T(";")
    decl = [i for i in t.perm(ncls, "r2-text-order") if id(classes[i]) not in in_group]
    for i in decl:
        emit_class(classes[i])
    mrefs = []
    for call in calls:
        T("call")
        T(call.name)
        T(":")
        r = Ref(call, "cls", None, call.cls)
        r.text = r.name = call.cls.name
        r.pos = T(call.cls.name)
        call.refs.append(r)
        refs.append(r)
        T(".")
        r2 = Ref(call, "meth", None, call.meth)
        r2.text = r2.name = call.meth.name
        r2.pos = T(call.meth.name)
        mrefs.append(r2)
    text = "".join(out)
    for r in refs + mrefs:
        r.key = r.sid()
    SIMFS.files[path] = text

    class W:
        pass

    w = W()
    w.main = path
    w.refs = refs
    mode = t.pick(["dag", "rounds", "dag", "eager"], "mode")
    draw_schedule(t, refs, mode)
    budget = len(refs) + len(mrefs) + 2
    sched = Scheduler(ctx, w, budget)
    ctx.sample = {"template": "R2", "mode": mode, "text": text,
                  "plans": {r.key: r.plan for r in refs if r.plan != ("now",)}}

    def build(scheduler):
        mm = metamodel_from_str(R2_GRAMMAR, textx_tools_support=tools, memoization=memo)
        prov = ScriptedProvider(sp.PlainName(), scheduler, ctx)
        mm.register_scope_providers({"Class.bases": prov, "Call.cls": prov, "Group.bases": prov})
        return mm

    mm = build(sched)
    ctx.ev("world-r2", mode, len(refs), len(mrefs))
    try:
        model = mm.model_from_file(path)
    except Budget as b:
        ctx.violate("C09", "non-termination", "r2", f"provider for {b.args[0]} called more than {budget} times")
        return
    except Exception as e:
        ctx.violate("C09", "verdict", f"r2/{mode}/spurious-failure",
                    f"every reference is resolvable under this schedule but the load failed: {e!r}")
        return
    ctx.stats["steps"] += sum(sched.calls.values())
    ctx.probe("natural-postponement-template")
    if sched.order_at_risk:
        ctx.probe("list-element-postponed-while-later-resolved")
    ctx.sig = ["r2", mode, sched.trace, text]
    cobj = {c.name: o for c, o in zip([classes[i] for i in decl], model.classes)}
    for g, go in zip(groups, model.groups):
        cobj[g.head.name] = go.head
    for g, go in zip(groups, model.groups):
        got = list(go.bases)
        exp = [cobj[b.name] for b in g.bases]
        if sorted(map(id, got)) != sorted(map(id, exp)):
            ctx.violate("C09", "result-independent-of-order", "r2/list-content",
                        f"{g.name}.bases = {[getattr(x, 'name', x) for x in got]}, expected {[b.name for b in g.bases]}")
        elif [id(x) for x in got] != [id(x) for x in exp]:
            ctx.violate("C08", "order", f"r2/{mode}/same-start-as-contained-object",
                        f"{g.name}.bases = {[x.name for x in got]}, textual order is {[b.name for b in g.bases]}")
            ctx.violate("C09", "result-independent-of-order", "r2/list-order",
                        f"{g.name}.bases = {[x.name for x in got]} under this schedule")
    for c in classes:
        o = cobj[c.name]
        got = list(o.bases)
        exp = [cobj[b.name] for b in c.bases]
        if sorted(map(id, got)) != sorted(map(id, exp)):
            ctx.violate("C09", "result-independent-of-order", "r2/list-content",
                        f"{c.name}.bases = {[getattr(x, 'name', x) for x in got]}, expected {[b.name for b in c.bases]}")
        elif [id(x) for x in got] != [id(x) for x in exp]:
            ctx.violate("C08", "order", f"r2/{mode}", f"{c.name}.bases = {[x.name for x in got]}, textual order is "
                                                      f"{[b.name for b in c.bases]}")
            ctx.violate("C09", "result-independent-of-order", "r2/list-order",
                        f"{c.name}.bases = {[x.name for x in got]} under this schedule")
    for call, co in zip(calls, model.calls):
        if co.cls is not cobj[call.cls.name]:
            ctx.violate("C09", "result-independent-of-order", "r2/scalar", f"{call.name}.cls = {co.cls!r}")
        owner = cobj[call.meth.parent.name]
        want = next(m for m in owner.methods if m.name == call.meth.name)
        if co.meth is not want:
            ctx.violate("C09", "result-independent-of-order", "r2/rrel-through-references",
                        f"{call.name}: {call.cls.name}.{call.meth.name} resolved to the method of "
                        f"{getattr(getattr(co.meth, 'parent', None), 'name', None)}, it is defined in {owner.name}")
    if prop == "C09":
        ctx.nontrivial = sched.postponements > 0
    elif prop == "C08":
        ctx.nontrivial = sched.order_at_risk > 0
    if tools:
        lst = getattr(model, "_pos_crossref_list", None) or []
        starts = [e.ref_pos_start for e in lst]
        allr = refs + mrefs
        if sorted(starts) != sorted(r.pos for r in allr):
            ctx.violate("C34", "crossref-bijection", "r2", f"entries at {sorted(starts)}, references at {sorted(r.pos for r in allr)}")
        else:
            if starts != sorted(starts):
                ctx.violate("C34", "crossref-sorted", "r2", f"ref_pos_start sequence {starts} is not sorted")
            bp = {r.pos: r for r in allr}
            for e in lst:
                r = bp[e.ref_pos_start]
                if text[e.ref_pos_start:e.ref_pos_end] != r.text:
                    ctx.violate("C34", "ref-span", "r2", f"{r.key}: [{e.ref_pos_start}:{e.ref_pos_end}] = "
                                                         f"{text[e.ref_pos_start:e.ref_pos_end]!r}, reference text is {r.text!r}")
                if e.def_file_name != path or e.def_pos_start != r.target.start:
                    ctx.violate("C34", "def-span", "r2", f"{r.key}: definition at {e.def_pos_start}, target starts at {r.target.start}")
        if prop == "C34":
            ctx.nontrivial = sched.postponements > 0


def check_tools(ctx, w, models, closure, family, sched, anon_main=None):
    """C34: _pos_crossref_list and _pos_rule_dict of every model of the closure."""
    multi = False
    shared = False
    for f in closure:
        m = models[f]
        fe = w.files[f]
        text = fe.text
        frefs = [r for r in w.refs if r.owner.file == f]
        lst = getattr(m, "_pos_crossref_list", None)
        if lst is None:
            ctx.violate("C34", "crossref-list", f"{family}/missing", f"{f}: no _pos_crossref_list")
            continue
        starts = [e.ref_pos_start for e in lst]
        if sorted(starts) != sorted(r.pos for r in frefs):
            ctx.violate("C34", "crossref-bijection", family,
                        f"{os.path.basename(f)}: entries at {sorted(starts)}, references at {sorted(r.pos for r in frefs)}")
            continue
        if starts != sorted(starts):
            ctx.violate("C34", "crossref-sorted", family,
                        f"{os.path.basename(f)}: ref_pos_start sequence {starts} is not sorted")
        by_pos = {r.pos: r for r in frefs}
        for e in lst:
            r = by_pos[e.ref_pos_start]
            if "." in r.text:
                multi = True
            if text[e.ref_pos_start:e.ref_pos_end] != r.text:
                ctx.violate("C34", "ref-span", ("spaced-" if r.text != r.name else "") +
                            ("multi-part" if "." in r.text else "single-part"),
                            f"{r.key}: [{e.ref_pos_start}:{e.ref_pos_end}] = "
                            f"{text[e.ref_pos_start:e.ref_pos_end]!r}, reference text is {r.text!r}")
            tg = r.target
            tfile = None if tg.file == anon_main else tg.file  # a string model has no file name
            if e.def_file_name != tfile or (e.def_pos_start, e.def_pos_end) != (tg.start, tg.stop):
                ctx.violate("C34", "def-span", family,
                            f"{r.key}: definition {e.def_file_name}[{e.def_pos_start}:{e.def_pos_end}], "
                            f"target is {tg.file}[{tg.start}:{tg.stop}]")
        prd = getattr(m, "_pos_rule_dict", None)
        if prd is None:
            ctx.violate("C34", "rule-dict", f"{family}/missing", f"{f}: no _pos_rule_dict")
            continue
        objs = walk_model(m)
        depth = {}

        def dep(o):
            d = 0
            while hasattr(o, "parent"):
                o = o.parent
                d += 1
            return d

        spans = {}
        for o in objs:
            sp_ = (o._tx_position, o._tx_position_end)
            spans.setdefault(sp_, []).append(o)
        keys = list(prd.keys())
        if set(keys) != set(spans):
            ctx.violate("C34", "rule-dict-keys", family,
                        f"{os.path.basename(f)}: keys {sorted(set(keys) ^ set(spans))} differ from object spans")
            continue
        for k, v in prd.items():
            cands = spans[k]
            if len(cands) > 1:
                shared = True
            if not any(v is c for c in cands):
                ctx.violate("C34", "rule-dict-value", family, f"{os.path.basename(f)}: value at {k} has another span")
            else:
                inner = max(cands, key=dep)
                if v is not inner:
                    ctx.violate("C34", "rule-dict-innermost", "shared-span",
                                f"{os.path.basename(f)}: span {k} maps to {type(v).__name__}, innermost is "
                                f"{type(inner).__name__}")
        for i, a in enumerate(keys):
            for b in keys[:i]:
                # b is listed before a; violation if b strictly contains a
                if b != a and b[0] <= a[0] and a[1] <= b[1]:
                    ctx.violate("C34", "rule-dict-order", "same-start" if a[0] == b[0] else "nested",
                                f"{os.path.basename(f)}: {b} is listed before {a} which it contains")
                    break
            else:
                continue
            break
    if ctx.prop == "C34":
        ctx.nontrivial = bool(w.refs) and (multi or shared or sched.postponements > 0)
        if multi:
            ctx.probe("multi-part-reference")
        if any(r.text != r.name for r in w.refs):
            ctx.probe("qualified-name-written-with-whitespace")
        if shared:
            ctx.probe("objects-sharing-a-span")


RULES = {
    "C08": "one run = one generated world (1-3 virtual files, 5 provider families, <=16 references, lists of 1-4 "
           "distinct targets) under one drawn postponement schedule (acyclic 'after D' dependencies biased to later "
           "elements of the same list, or a dense round map); non-trivial = some list element was still pending when "
           "a later element of the same list resolved (the only situation in which order is at risk); distinct = "
           "distinct (family, mode, full provider answer trace)",
    "C09": "one run = one generated world and one dependency structure over its references (now / after D with "
           "cycles and self-dependencies / never / dense round maps), provider-call budget N+2 per reference; "
           "non-trivial = at least one Postponed answer was given, or the load failed as unresolvable; distinct = "
           "distinct (family, mode, provider answer trace)",
    "C34": "W1 worlds loaded with textx_tools_support=True, in one episode of three with a contextual name (2-3 "
           "references of one file written with the same text, mapped by the provider to different targets); non-trivial = the closure has references and at least "
           "one of: a multi-part reference name, nested objects sharing a span, a postponed reference; distinct = "
           "distinct (family, mode, provider answer trace)",
}
ASSUMPTIONS = {
    "C08": ["grammar family is the item template of tvsim/gen.py; names are globally unique so every list position "
            "is attributable to one reference", "expected targets come from the generator's name table"],
    "C09": ["dependency-based plans only for the verdict oracle; round maps are dense (every round resolves "
            "something), because the resolver legitimately stops at a round without progress",
            "the failure report is compared by the multiset of quoted reference names"],
    "C34": ["object spans (_tx_position/_tx_position_end) are taken from the loaded model (their exactness is C06)",
            "builtins are excluded (no position)"],
}
