"""
W4 - repo world (C17, C18, C27, C28).  DESIGN.md section 3/W4 and 4.

A virtual directory tree of 2-6 model files with a drawn import graph, one of
the model-loading provider families, global repository on/off, optional
builtin models.  A run is a short history of operations (load, load with an
undeclared parameter, corrupt + load + repair + load).  A small reference
model (cache / NEW(F) / expected opens / expected targets) is the oracle.
"""

import os
import weakref

import textx  # noqa
from textx import metamodel_from_str
from textx.exceptions import TextXError, TextXSemanticError, TextXSyntaxError
from textx.scoping import ModelRepository, Postponed
import textx.scoping.providers as sp

from ..core import Budget
from ..dump import dump_error
from ..gen import Ent, FileEnt, Ref, World, grammar, linecol, locate
from ..seams import SIMFS
from .w1_resolve import ScriptedProvider, Scheduler

ROOT = "/sim/w4"
FAMILIES = ["plainuri", "fqnuri", "plainuri-sp", "fqnuri-sp", "plaingr", "fqngr", "rrel"]
QUALIFIED = {"fqnuri", "fqnuri-sp", "fqngr", "rrel"}
PLAIN = {"plainuri", "plainuri-sp", "plaingr"}
GR = {"plaingr", "fqngr"}
SP = {"plainuri-sp", "fqnuri-sp"}
SEARCH_PATH = [ROOT + "/other", ROOT + "/sub"]
DIRS = ["", "sub/", "sub/deep/", "other/"]


def fname(m):
    """file name of a model in the spelling the world uses (a symlinked root has two spellings)"""
    return SIMFS.canon(getattr(m, "_tx_filename", None))


class RepoWorld(World):
    def __init__(self):
        World.__init__(self)
        self.family = None
        self.targets = {}  # (path, import idx) -> [files]   (ImportURI families)
        self.gr_patterns = []  # GlobalRepo families
        self.gr_files = []
        self.builtin_defs = []  # names defined by the builtin model
        self.recursive = False

    def direct_imports(self, path):
        if self.family in GR:
            return list(self.gr_files)
        out = []
        for i in self.files[path].imports:
            for f in self.targets[(path, i.idx)]:
                out.append(f)
        return out


def _glob_truth(pattern, recursive):
    return sorted(SIMFS._glob(os.path.normpath(pattern), recursive))


def gen_repo_world(t, family, prop=None):
    w = RepoWorld()
    w.family = family
    w.qualified = family in QUALIFIED
    n = 2 + t.draw(5, "nfiles")
    paths = []
    # two languages: files f<odd>.n belong to a second registered language (another metamodel instance that does not
    # declare the model parameters p1/p2); imports cross the language border in both directions
    # (C18 is also about "any surviving repository": more worlds with a second language that owns a repository)
    w.two_langs = family not in GR and t.chance(1, 2 if prop == "C18" else 4, "two-languages")
    w.tools = t.chance(1, 3, "tools-support")
    # the second language may have a global repository of its own: a file loaded directly with it is served from
    # there when a model of the first language imports it later
    w.mm2_repo = w.two_langs and t.chance(3 if prop == "C18" else 1, 4 if prop == "C18" else 2, "second-language-has-its-own-repository")
    w.unicode_names = t.chance(1, 4, "decomposed-unicode-in-file-names")
    # the files may be stored in another encoding than UTF-8; every load is then told so (encoding=...), and that has
    # to reach every file of the import closure
    w.encoding = t.pick([None, None, None, "utf-8-sig", "utf-16"], "file-encoding")
    w.line_end = t.pick([None, None, None, "\r\n", "\r"], "line-ends-of-the-files")
    for i in range(n):
        d = "" if i == 0 and not t.chance(1, 4, "main-in-sub") else t.pick(DIRS, "dir")
        if family in SP and i > 0:
            # search-path mode: imported files live next to the importer or on the search path
            d = t.pick(["", "other/", "sub/"], "sp-dir")
        # some file names carry a decomposed character (e + combining acute accent): import statements quote them, the
        # text of a model is what was written - not a normalised form of it
        uni = "e\u0301" if w.unicode_names and i % 2 == 0 and i > 0 else ""
        paths.append(f"{ROOT}/{d}f{i}{uni}.{'n' if w.two_langs and i % 2 == 1 else 'm'}")
    if family in SP and n >= 3 and t.chance(1, 2, "same-file-name-in-two-search-locations"):
        # a twin: the same relative name exists next to some importer and on the search path (or on two search path
        # entries) - the importer's directory wins, then the search path in its order, whatever is loaded already
        i = 1 + t.draw(n - 1, "twin-of")
        here = os.path.dirname(paths[i])
        others = [d_ for d_ in (ROOT, ROOT + "/other", ROOT + "/sub") if d_ != here]
        twin = t.pick(others, "twin-dir") + "/" + os.path.basename(paths[i])
        if twin not in paths:
            paths.append(twin)
            n += 1
            w.twin = (paths[i], twin)
    for p in paths:
        w.files[p] = FileEnt(p)
        SIMFS.files[p] = ""  # so that glob truth can be computed while generating
    w.main = paths[0]
    w.recursive = t.chance(1, 2, "recursive-glob") and family != "rrel"  # a grammar RREL takes no glob arguments
    # the root directory may be a symbolic link: every path of the world keeps the link spelling, os.path.realpath()
    # would give another spelling of the same files - one file is still one model
    w.declare_source = t.chance(1, 3, "a-parameter-called-source-is-declared")
    # user classes whose instances are false in a boolean context or compare equal by value: the repositories and the
    # lookups have to go by identity and by "is not None"
    w.ucls = []
    if t.chance(1, 3, "user-classes"):
        for name in ("Model", "Def", "Box", "Use", "Import"):
            if t.chance(1, 2, "ucls-" + name):
                w.ucls.append((name, t.pick(["plain", "falsy", "value-eq", "falsy"] if name != "Import" else ["plain", "falsy"], "ucls-variant")))
    w.symlinked = t.chance(1, 5, "root-directory-is-a-symlink")
    if w.symlinked:
        SIMFS.aliases = [(ROOT, "/sim/real-w4")]
    counters = {"d": 0, "b": 0, "u": 0, "w": 0}

    def fresh(k):
        counters[k] += 1
        return f"{k}{counters[k] - 1}"

    # ---- import statements
    if family in GR:
        mode = t.draw(3, "gr-patterns")
        if mode == 0:
            cand = [ROOT + "/**/*.m"]
            w.recursive = True
        elif mode == 1:
            cand = [ROOT + "/*.m", ROOT + "/sub/*.m", ROOT + "/sub/deep/*.m"]
        else:
            cand = ["*.m", "other/*.m", "sub/*.m"]  # relative: needs project_root
        w.gr_relative = mode == 2
        # a pattern that matches nothing is an error for GlobalRepo (ENOENT): keep the matching ones
        w.gr_patterns = [c for c in cand
                         if _glob_truth(c if os.path.isabs(c) else os.path.join(ROOT, c), w.recursive)]
        if not w.gr_patterns:
            w.gr_patterns = [ROOT + "/**/*.m"]
            w.recursive = True
            w.gr_relative = False
        files = []
        for pat in w.gr_patterns:
            full = pat if os.path.isabs(pat) else os.path.join(ROOT, pat)
            for f in _glob_truth(full, w.recursive):
                if f not in files:
                    files.append(f)
        w.gr_files = files
        if w.main not in files:
            # the entry file need not match the patterns
            pass
    else:
        def add_import(a, uri, targets):
            fe = w.files[paths[a]]
            imp = Ent("import", None, fe.path, None)
            imp.uri = uri
            imp.idx = len(fe.imports)
            fe.imports.append(imp)
            w.targets[(fe.path, imp.idx)] = targets

        def uri_for(a, b):
            frm = os.path.dirname(paths[a])
            if family in SP:
                # relative to the importer's directory or to a search path entry
                cands = [frm] + SEARCH_PATH
                for c in cands:
                    if paths[b].startswith(c + "/"):
                        rel = os.path.relpath(paths[b], c)
                        # the first search path entry containing `rel` wins: make sure it is this file
                        for c2 in cands:
                            full = os.path.normpath(os.path.join(c2, rel))
                            if full in w.files:
                                return (rel, [full])
                return None
            rel = os.path.relpath(paths[b], frm)
            style = t.draw(4, "uri-style")
            if style == 1 and "/" not in rel:
                rel = "./" + rel
            elif style == 2:
                rel = "sub/../" + rel if frm == ROOT else rel
            return (rel, [paths[b]])

        for i in range(1, n):
            j = t.draw(i, "import-parent")
            u = uri_for(j, i)
            if u:
                add_import(j, u[0], u[1])
        for _ in range(t.draw(4, "extra-edges")):
            a = t.draw(n, "edge-from")
            kind = t.draw(4, "edge-kind")
            if kind == 3 and family not in SP:
                # glob pattern
                pat = t.pick(["*.m", "sub/*.m", "**/*.m", "other/*.m", "../*.m"], "glob")
                full = os.path.normpath(os.path.join(os.path.dirname(paths[a]), pat))
                tg = _glob_truth(full, w.recursive)
                if tg:
                    add_import(a, pat, tg)
            else:
                b = t.draw(n, "edge-to")  # may equal a (self import) or repeat an edge (duplicate)
                u = uri_for(a, b)
                if u:
                    add_import(a, u[0], u[1])
    # ---- builtin model
    if t.chance(1, 3, "builtin-model"):
        w.builtin_defs = ["x0", "x1"]
    # ---- definitions
    for p in paths:
        fe = w.files[p]
        nd = 2 + t.draw(3, "ndefs")
        box = None
        for k in range(nd):
            cont = None
            if w.qualified and t.chance(1, 3, "in-box"):
                if box is None:
                    box = Ent("box", fresh("b"), p, None)
                    box.idx = len(fe.items)
                    fe.items.append(box)
                    w.boxes.append(box)
                cont = box
            d = Ent("def", fresh("d"), p, cont)
            lst = fe.items if cont is None else cont.items
            d.idx = len(lst)
            lst.append(d)
            w.defs.append(d)
    # ---- shadowing (self wins over direct import, direct import wins over builtin)
    def importers_of_both(f, g):
        for h in paths:
            di = set(w.direct_imports(h))
            if h != f and h != g and f in di and g in di:
                return True
            if h == g and f in di:  # g imports f directly and defines the name itself: fine (self wins)
                continue
        return False

    def can_define(p, name):
        """p may get a definition called `name` only if afterwards no file sees the name in two of its direct imports
        (the statement orders the model itself, its loaded models and the builtin models - not two loaded models)"""
        defining = {d.file for d in w.defs if d.parent is None and d.name == name} | {p}
        for h in paths:
            imps = set(w.direct_imports(h)) - {h}
            if len(imps & defining) > 1:
                return False
        return True

    w.shadows = []
    if family not in GR:
        for p in paths:
            for g in dict.fromkeys(w.direct_imports(p)):
                if g == p or not t.chance(1, 4, "shadow"):
                    continue
                if importers_of_both(p, g) or p in w.direct_imports(g) and False:
                    continue
                gd = [d for d in w.defs if d.file == g and d.parent is None and not getattr(d, "shadow", False)]
                if not gd:
                    continue
                victim = t.pick(gd, "shadow-victim")
                if any(d.file == p and d.name == victim.name for d in w.defs) or not can_define(p, victim.name):
                    continue
                # g must not see p's copy through its own imports (p direct import of g => ambiguity only for
                # names g does not define itself; g defines it, so self wins there)
                s = Ent("def", victim.name, p, None)
                s.shadow = True
                s.idx = len(w.files[p].items)
                w.files[p].items.append(s)
                w.defs.append(s)
                w.shadows.append((p, g, victim.name))
    # ---- the same name in two files that are never visible together (no file sees both): what a file imported by
    # an *earlier* load defines must not leak into the lookups of a later load
    w.unrelated = []
    if family not in GR:
        vis_sets = {k: {k} | set(w.direct_imports(k)) for k in paths}
        for _ in range(t.draw(3, "n-unrelated-dups")):
            g = t.pick(paths, "ud-g")
            h = t.pick(paths, "ud-h")
            if g == h or any(g in v and h in v for v in vis_sets.values()):
                continue
            gd = [d for d in w.defs if d.file == g and d.parent is None and not getattr(d, "shadow", False)]
            if not gd:
                continue
            victim = t.pick(gd, "ud-victim")
            if any(d.file == h and d.name == victim.name for d in w.defs) or not can_define(h, victim.name):
                continue
            s_ = Ent("def", victim.name, h, None)
            s_.shadow = True
            s_.idx = len(w.files[h].items)
            w.files[h].items.append(s_)
            w.defs.append(s_)
            w.unrelated.append((g, h, victim.name))
    if w.builtin_defs:
        # an imported (or own) file may define a builtin's name: the file wins
        for p in paths:
            if t.chance(1, 4, "shadow-builtin"):
                nm = t.pick(w.builtin_defs, "shadow-builtin-name")
                if any(d.name == nm for d in w.defs):
                    continue
                s = Ent("def", nm, p, None)
                s.shadow = True
                s.idx = len(w.files[p].items)
                w.files[p].items.append(s)
                w.defs.append(s)
    # ---- uses
    for p in paths:
        fe = w.files[p]
        vis = visible_table(w, p)
        names = sorted(vis)
        if not names:
            continue
        for _ in range(1 + t.draw(2, "nuses")):
            u = Ent("use", fresh("u"), p, None)
            u.idx = len(fe.items)
            fe.items.append(u)
            nl = 1 + t.draw(min(3, len(names)), "nlist")
            order = t.perm(len(names), "targets")[:nl]
            for k, ti in enumerate(order):
                r = Ref(u, "refs", k, vis[names[ti]])
                r.text_override = names[ti] if vis[names[ti]] == "builtin" else None
                u.refs.append(r)
            if t.chance(1, 3, "has-one"):
                nm = t.pick(names, "one-target")
                r = Ref(u, "one", None, vis[nm])
                r.text_override = nm if vis[nm] == "builtin" else None
                u.refs.append(r)
            w.uses.append(u)
    for p in paths:
        fe = w.files[p]
        fe.tail_tokens = []
        fe.prefix = t.pick(["", "\n", " "], "prefix")
        k = 1 + t.draw(4, "nseps")
        fe.seps = [t.pick([" ", "\n", "  ", "\n "], "sep") for _ in range(k)]
        for e in w.all_ents(fe):
            if e.kind == "use":
                for r in e.refs:
                    w.refs.append(r)
    for r in w.refs:
        r.key = r.sid()
    # ---- a scope provider *inside* the ImportURI provider that answers Postponed by itself for drawn references (the
    # way FQN's scope_redirection_logic or a user's inner provider does): the scope that is asked first is not ready in
    # the first round - the lookup order (model itself, loaded models, builtin models) must not depend on that
    w.inner_postponed = set()
    if family in ("plainuri", "fqnuri", "plainuri-sp", "fqnuri-sp") and t.chance(1, 3, "inner-provider-postpones"):
        seen_files = set()
        for i, r in enumerate(w.refs):
            # the first reference of every file answers at once: the resolver stops at a round without any progress,
            # so every load has to resolve something in its first round
            first = r.owner.file not in seen_files
            seen_files.add(r.owner.file)
            if t.chance(1, 2, "inner-postpone-ref") and not first:
                w.inner_postponed.add(i)
    w.render()
    w.install(SIMFS)
    SIMFS.stored_encoding = w.encoding
    w.inner_plan = {(r.owner.file, r.pos): 1 for i, r in enumerate(w.refs) if i in w.inner_postponed}
    return w


def _user_classes(spec):
    from .w1_resolve import _NullRec
    from .w2_lifecycle import make_class

    return [make_class(n, v, _NullRec()) for n, v in spec]


class _Helper:
    """a parameter value with identity semantics (e.g. a resolver or a logger handed to the model processors)"""

    def __repr__(self):
        return "<helper>"


HELPER = _Helper()


class InjectedProcError(Exception):
    """an application-defined exception raised by a processor (not derived from TextXError)"""


class InnerPostponer:
    """Scope provider handed to ImportURI as its inner provider.  ImportURI asks it for the referencing model first
    (obj = the referencing object) and then once per loaded / builtin model (obj = that model's root)."""

    def __init__(self, base, w, ctx):
        self.base = base
        self.w = w
        self.ctx = ctx
        # per model *object* (every (re)load of a file starts afresh).  Keyed by id() and verified through a weak
        # reference: a WeakKeyDictionary goes by __eq__/__hash__, and models of a value-equal user class would share one
        # entry that vanishes whenever the first of them is collected (met in the soak: a batch-only failure)
        self.attempts = {}

    def __call__(self, obj, attr, obj_ref):
        m = textx.get_model(obj)
        if obj is not m:
            key = (fname(m), obj_ref.position)
            e = self.attempts.get(id(m))
            if e is None or e[0]() is not m:
                e = self.attempts[id(m)] = (weakref.ref(m), {})
            per_model = e[1]
            n = per_model[key] = per_model.get(key, 0) + 1
            # (not while a reference is scripted to stay unresolvable: the resolver stops at the first round without
            # progress and reports everything still pending, the expected report would depend on the mix)
            if n <= self.w.inner_plan.get(key, 0) and not getattr(self.w, "inner_suspended", False):
                self.ctx.ev("inner-postponed", os.path.basename(key[0] or "<str>"), key[1])
                self.ctx.stats["probe:inner-provider-postponed"] += 1
                return Postponed()
        return self.base(obj, attr, obj_ref)


def visible_table(w, p):
    """reference text -> target entity (or 'builtin') seen from file p, using the
    documented lookup order: the model itself, its loaded models, builtin models."""
    vis = {}
    files = [p] + [g for g in dict.fromkeys(w.direct_imports(p)) if g != p]
    for f in files:
        for d in w.defs:
            if d.file != f:
                continue
            key = d.qname() if w.qualified else d.name
            if key not in vis:
                vis[key] = d
    for b in w.builtin_defs:
        if b not in vis:
            vis[b] = "builtin"
    return vis


# ---------------------------------------------------------------------------


class Sys:
    """The system under test for one run: metamodel + provider + seam listeners."""

    def __init__(self, ctx, w, t, global_repo, wrap, builtin_text=None):
        self.ctx = ctx
        self.w = w
        fam = w.family
        self.opens = []
        self.params_seen = None
        kw = {}
        if getattr(w, "tools", False):
            kw["textx_tools_support"] = True
        if global_repo:
            kw["global_repository"] = True
        self.builtin_model = None
        if w.builtin_defs:
            mmb = metamodel_from_str(grammar())
            self.builtin_model = mmb.model_from_str(builtin_text or " ".join("def " + n for n in w.builtin_defs))
            repo = ModelRepository()
            repo.add_model(self.builtin_model)
            kw["builtin_models"] = repo
        gargs = {"recursive": True} if w.recursive else None
        rrel = None
        if fam == "rrel":
            rrel = "+m:^items*"
        if getattr(w, "ucls", None):
            kw["classes"] = _user_classes(w.ucls)
        self.mm = metamodel_from_str(grammar(rrel=rrel), **kw)
        self.mm.model_param_defs.add("p1", "first parameter")
        self.mm.model_param_defs.add("p2", "second parameter")
        self.declared = {"p1", "p2", "project_root"}
        if getattr(w, "declare_source", False):
            # any name may be declared - also one that textX uses for an argument of its own helper functions
            self.mm.model_param_defs.add("source", "where the model comes from")
            self.declared.add("source")
        base = None
        if getattr(w, "inner_plan", None) and fam in ("plainuri", "fqnuri", "plainuri-sp", "fqnuri-sp"):
            inner = InnerPostponer(sp.PlainName() if fam in PLAIN else sp.FQN(), w, ctx)
            base = sp.ImportURI(inner, **({"search_path": list(SEARCH_PATH)} if fam in SP else {"glob_args": gargs}))
        elif fam == "plainuri":
            base = sp.PlainNameImportURI(glob_args=gargs)
        elif fam == "fqnuri":
            base = sp.FQNImportURI(glob_args=gargs)
        elif fam == "plainuri-sp":
            base = sp.PlainNameImportURI(search_path=list(SEARCH_PATH))
        elif fam == "fqnuri-sp":
            base = sp.FQNImportURI(search_path=list(SEARCH_PATH))
        elif fam in GR:
            cls = sp.PlainNameGlobalRepo if fam == "plaingr" else sp.FQNGlobalRepo
            base = cls(glob_args=gargs)
            for pat in w.gr_patterns:
                base.register_models(pat)
        self.sched = Scheduler(ctx, w, len(w.refs) + 2)
        self.parsed = []
        if base is not None:
            if wrap:
                self.prov = ScriptedProvider(base, self.sched, ctx, on_parsed=self._on_parsed)
            else:
                self.prov = base
            self.mm.register_scope_providers({"*.*": self.prov})
        self.mm2 = None
        if getattr(w, "two_langs", False):
            kw2 = {}
            if getattr(w, "tools", False):
                kw2["textx_tools_support"] = True
            if "builtin_models" in kw:
                kw2["builtin_models"] = kw["builtin_models"]
            if getattr(w, "mm2_repo", False):
                kw2["global_repository"] = True
            if getattr(w, "ucls", None):
                kw2["classes"] = _user_classes(w.ucls)
            self.mm2 = metamodel_from_str(grammar(rrel=rrel), **kw2)
            base2 = {"plainuri": lambda: sp.PlainNameImportURI(glob_args=gargs),
                     "fqnuri": lambda: sp.FQNImportURI(glob_args=gargs),
                     "plainuri-sp": lambda: sp.PlainNameImportURI(search_path=list(SEARCH_PATH)),
                     "fqnuri-sp": lambda: sp.FQNImportURI(search_path=list(SEARCH_PATH))}.get(fam)
            if getattr(w, "inner_plan", None) and base2 is not None:
                inner2 = InnerPostponer(sp.PlainName() if fam in PLAIN else sp.FQN(), w, ctx)
                b2 = sp.ImportURI(inner2, **({"search_path": list(SEARCH_PATH)} if fam in SP else {"glob_args": gargs}))
                self.mm2.register_scope_providers(
                    {"*.*": ScriptedProvider(b2, self.sched, ctx, on_parsed=self._on_parsed) if wrap else b2})
            elif base2 is not None:
                b2 = base2()
                self.mm2.register_scope_providers(
                    {"*.*": ScriptedProvider(b2, self.sched, ctx, on_parsed=self._on_parsed) if wrap else b2})
            self.register_lang()
        SIMFS.listener = self._fs
        self.cache2 = {}  # files loaded directly with the second language (its own global repository)
        self.fail_objproc_for = None
        self.fail_modelproc_for = None
        self.proc_fired = 0
        self.params_at = {}

        self.proc_exc = "tx"  # what a failing processor raises: a TextXError, a ValueError, an application exception

        def boom():
            self.proc_fired += 1
            if self.proc_exc == "tx":
                raise TextXSemanticError("injected")
            if self.proc_exc == "value":
                raise ValueError("injected")
            raise InjectedProcError("injected")

        def defproc(o):
            if self.fail_objproc_for is not None and \
                    (fname(textx.get_model(o)) or "<anon>") == self.fail_objproc_for:
                boom()

        def mproc(m, mm):
            if self.fail_modelproc_for is not None and \
                    (fname(m) or "<anon>") == self.fail_modelproc_for:
                boom()

        self.mm.register_obj_processors({"Def": defproc})
        self.mm.register_model_processor(mproc)
        if self.mm2 is not None:
            self.mm2.register_obj_processors({"Def": defproc})
            self.mm2.register_model_processor(mproc)

    def other_mm(self):
        if getattr(self, "_other", None) is None:
            self._other = metamodel_from_str(grammar())
        return self._other

    def register_lang(self):
        if self.mm2 is not None:
            textx.clear_language_registrations()
            textx.register_language("lang-n", pattern="*.n", metamodel=self.mm2)

    def _fs(self, kind, path, extra):
        if kind == "open":
            self.opens.append(path)
            self.ctx.ev("open", os.path.relpath(path, ROOT))
        elif kind == "glob":
            self.ctx.ev("glob", path, [os.path.relpath(x, ROOT) for x in extra])

    def _on_parsed(self, model):
        self.parsed.append(fname(model))

    def all_models(self, model=None):
        if hasattr(self.mm, "_tx_model_repository"):
            return self.mm._tx_model_repository.all_models
        if model is not None and hasattr(model, "_tx_model_repository"):
            return model._tx_model_repository.all_models
        return None


def new_files(w, F, cache, anon=False):
    """NEW(F): files a load of F has to read.  anon: the text of F is given as a string without a file name - F's
    own file is neither read nor registered (unless an import / pattern reaches it)."""
    if anon:
        seen = []
        q = []
        for g in w.direct_imports(F):
            if g not in cache and g not in seen:
                seen.append(g)
                q.append(g)
    elif F in cache:
        return []
    else:
        seen = [F]
        q = [F]
    while q:
        f = q.pop(0)
        for g in w.direct_imports(f):
            if g in cache or g in seen:
                continue
            seen.append(g)
            q.append(g)
    return seen


def check_models(ctx, prop_ok, sysm, w, model, F, cache_objs, new, fam, tag, anon_model=None):
    """C17 oracle after a successful load(F).  Returns {file: model}."""
    am = sysm.all_models(model)
    by_file = {}
    if am is not None:
        for m in am:
            fn = fname(m)
            if fn is None:
                continue
            if fn in by_file and by_file[fn] is not m:
                ctx.violate("C17", "single-model-per-file", fam, f"two models registered for {fn}")
            by_file[fn] = m
    if anon_model is None:
        by_file.setdefault(F, model)
        if by_file[F] is not model:
            ctx.violate("C17", "single-model-per-file", fam, f"the returned model is not the one registered for {F}")
    want = set(cache_objs) | set(new)
    if set(by_file) != want:
        ctx.violate("C17", "repository-content", fam + tag,
                    f"models for {sorted(os.path.relpath(x, ROOT) for x in by_file)}, expected "
                    f"{sorted(os.path.relpath(x, ROOT) for x in want)}")
        return by_file
    for f, m in cache_objs.items():
        if by_file.get(f) is not m:
            ctx.violate("C17", "cached-identity", fam + tag, f"model of {f} is not the object cached earlier")
    # references of every model: identity of the target inside the single model of its file
    owners = [(u, by_file[u.file], by_file) for u in w.uses if u.file in by_file]
    if anon_model is not None:
        # the string model is a second, separate instance of F's text: its own definitions are its own objects
        view = dict(by_file)
        view[F] = anon_model
        owners += [(u, anon_model, view) for u in w.uses if u.file == F]
    for u, holder, by_file_v in owners:
        uo = locate(holder, u.path())
        lst = [r for r in u.refs if r.attr == "refs"]
        got = list(uo.refs)
        if len(got) != len(lst):
            ctx.violate("C17", "reference-identity", fam + tag, f"{u.sid()}.refs has {len(got)} entries, text has {len(lst)}")
            continue
        pairs = list(zip(lst, got)) + [(r, uo.one) for r in u.refs if r.attr == "one"]
        for r, o in pairs:
            if r.target == "builtin":
                exp = next((d for d in sysm.builtin_model.items if d.name == r.text), None)
                clause = "lookup-order"
            else:
                exp = locate(by_file_v[r.target.file], r.target.path()) if r.target.file in by_file_v else None
                clause = "reference-identity"
                if getattr(r.target, "shadow", False) or any(
                        s[2] == r.target.name for s in getattr(w, "shadows", [])) or r.text in w.builtin_defs:
                    clause = "lookup-order"
            if o is not exp:
                ctx.violate("C17", clause, fam + tag,
                            f"{r.key} ({r.text!r}) resolved to {getattr(o, 'name', o)!r} in "
                            f"{os.path.basename(str(getattr(textx.get_model(o), '_tx_filename', None))) if o is not None else None}, "
                            f"expected the element of {os.path.basename(r.target.file) if r.target != 'builtin' else 'the builtin model'}")
    return by_file


def run(ctx):
    t = ctx.tape
    prop = ctx.prop
    fam = t.pick(FAMILIES, "family")
    global_repo = t.chance(1, 2, "global-repo")
    w = gen_repo_world(t, fam, prop)
    perm_glob = t.chance(1, 2, "glob-order")
    if perm_glob:
        def order(res):
            ctx.fired("glob-order")
            p = t.perm(len(res), "glob-perm")
            return [res[i] for i in p]
        SIMFS.glob_order = order
    wrap = fam != "rrel"
    sysm = Sys(ctx, w, t, global_repo, wrap)
    paths = list(w.files)
    ctx.sample = {
        "family": fam, "global_repository": global_repo, "builtin": w.builtin_defs,
        "files": {os.path.relpath(p, ROOT): fe.text for p, fe in w.files.items()},
        "imports": {os.path.relpath(k[0], ROOT) + "#" + str(k[1]): [os.path.relpath(x, ROOT) for x in v]
                    for k, v in w.targets.items()},
        "two_languages": getattr(w, "two_langs", False), "user_classes": [list(x) for x in getattr(w, "ucls", [])],
        "same_name_in_unrelated_files": [(os.path.relpath(a, ROOT), os.path.relpath(b, ROOT), n)
                                         for a, b, n in getattr(w, "unrelated", [])], "gr_patterns": w.gr_patterns, "shadows": [(os.path.relpath(a, ROOT), os.path.relpath(b, ROOT), n)
                                                  for a, b, n in getattr(w, "shadows", [])],
        "ops": [],
    }
    cache = {}  # file -> model object (only with a global repository)
    famtag = fam + ("/repo" if global_repo else "")
    if prop == "C28" and fam in PLAIN and w.builtin_defs and t.chance(1, 2, "builtin-dup"):
        op_builtin_dup(ctx, w, t, wrap, famtag)
        SIMFS.listener = sysm._fs
        sysm.register_lang()
    shapes = set()
    if os.environ.get("VERIF_TIER") == "thorough" and prop in ("C18", "C28"):
        # fault enumeration: every file of the main file's closure fails in every phase, each on a fresh system
        F = w.main
        params = {"project_root": ROOT} if (fam in GR and getattr(w, "gr_relative", False)) else {}
        for X in new_files(w, F, {}):
            for kind in CORRUPTIONS:
                s2 = Sys(ctx, w, t, global_repo, wrap)
                ok = op_corrupt_cycle(ctx, prop, s2, w, F, params, {}, famtag, global_repo, t, wrap, shapes, "file",
                                      force=(X, kind))
                ctx.stats["fault_points_enumerated"] += 1
                if not ok or ctx.violations:
                    ctx.sig = [fam, global_repo, "enumeration"]
                    return
        ctx.sig = [fam, global_repo, "enumeration", sorted(os.path.relpath(x, ROOT) for x in new_files(w, F, {})),
                   [fe.text for fe in w.files.values()]]
        return
    nops = 2 + t.draw(5, "nops")
    for opi in range(nops):
        F = t.pick(paths, "load-file") if t.chance(2, 3, "load-other") else w.main
        if fam in GR and getattr(w, "gr_relative", False):
            # the project root as the caller spells it (not necessarily normalised): every model gets it verbatim
            params = {"project_root": t.pick([ROOT, ROOT, ROOT + "/", ROOT + "/sub/..", "/sim/./w4"], "project-root-spelling")}
        else:
            params = {}
        if "p3" not in sysm.declared and t.chance(1, 6, "declare-another-parameter-now"):
            # parameter definitions may grow between loads (declarations and loads alternate)
            sysm.mm.model_param_defs.add("p3", "declared after the first loads")
            sysm.declared.add("p3")
            ctx.sample["ops"].append(["declare", "p3"])
            ctx.probe("parameter-declared-between-loads")
        if t.chance(1, 2, "with-params"):
            if t.chance(1, 2, "p1"):
                # (a value may be any object: a helper that is only equal to itself must reach every model as it is)
                params["p1"] = t.pick(["a", 1, "zz", HELPER], "p1v")
            if t.chance(1, 2, "p2"):
                params["p2"] = t.pick([None, "b", 7], "p2v")
            if "p3" in sysm.declared and t.chance(2, 3, "p3"):
                params["p3"] = t.pick(["late", 0], "p3v")
            if "source" in sysm.declared and t.chance(1, 2, "source"):
                params["source"] = t.pick(["editor", "batch"], "sourcev")
        opk = t.draw(6, "op")  # 0-2 load, 3 undeclared, 4-5 corrupt cycle
        if prop == "C17":
            opk = min(opk, 2) if not t.chance(1, 3, "c17-other-op") else opk
        elif prop == "C27":
            opk = 3 if opk >= 3 else opk
        elif prop in ("C18", "C28"):
            opk = 4 if opk >= 2 else opk
        as_str = ["file", "file", "str", "anon"][t.draw(4, "entry")]
        if as_str == "anon" and not anon_allowed(w, F):
            as_str = "file"
        if getattr(w, "mm2_repo", False) and t.chance(1, 2 if prop == "C18" else 4, "direct-load-with-second-language"):
            leaves = [f for f in paths if f.endswith(".n") and not w.files[f].imports]
            if leaves:
                X = t.pick(leaves, "direct2-file")
                ctx.sample["ops"].append(["load-with-second-language", os.path.relpath(X, ROOT)])
                sysm.opens.clear()
                sysm.sched.resolved.clear()
                sysm.sched.calls.clear()
                sysm.sched.anon_file = None
                try:
                    m2 = sysm.mm2.model_from_file(X, **({"encoding": w.encoding} if w.encoding else {}))
                except Exception as e:
                    ctx.violate("C17", "valid-load-fails", famtag + "/second-language", f"{dump_error(e)}")
                    return
                want = [] if X in sysm.cache2 else [X]
                if sorted(sysm.opens) != want:
                    ctx.violate("C17", "load-once", famtag + "/second-language",
                                f"opened {sysm.opens}, expected {want}")
                if X in sysm.cache2 and sysm.cache2[X] is not m2:
                    ctx.violate("C17", "cached-reload", famtag + "/second-language", "repeated direct load returned another model")
                sysm.cache2[X] = m2
                ctx.probe("file-cached-by-the-second-language")
                continue
        if fam in GR and not getattr(w, "gr_relative", False) and prop in ("C17", "C18") and t.chance(1, 2 if prop == "C18" else 4, "bulk-op"):
            ok = op_bulk(ctx, prop, sysm, w, cache, famtag, global_repo, t, wrap)
            if not ok:
                return
            continue
        if opk <= 2:
            ctx.sample["ops"].append(["load", os.path.relpath(F, ROOT), params, as_str])
            ok = op_load(ctx, prop, sysm, w, F, params, cache, famtag, global_repo, as_str, shapes)
            if not ok:
                return
        elif opk == 3:
            ctx.sample["ops"].append(["load-undeclared", os.path.relpath(F, ROOT)])
            op_undeclared(ctx, sysm, w, F, params, cache, famtag, t)
        else:
            ok = op_corrupt_cycle(ctx, prop, sysm, w, F, params, cache, famtag, global_repo, t, wrap, shapes, as_str)
            if not ok:
                return
    ctx.sig = [fam, global_repo, sorted(shapes), [o[:2] for o in ctx.sample["ops"]]]
    ctx.stats["steps"] += len(ctx.events)


def do_load(sysm, w, F, params, entry):
    """entry: 'file' | 'str' (string with file_name=) | 'anon' (string without a file name)"""
    sysm.sched.anon_file = F if entry == "anon" else None
    enc = {"encoding": w.encoding} if getattr(w, "encoding", None) else {}
    if entry == "anon":
        return sysm.mm.model_from_str(w.files[F].text, **enc, **params)
    if entry == "str" or entry is True:
        return sysm.mm.model_from_str(w.files[F].text, file_name=F, **enc, **params)
    return sysm.mm.model_from_file(F, **enc, **params)


def anon_allowed(w, F):
    """A string model without a file name cannot resolve relative imports: only without import statements."""
    if getattr(w, "encoding", None) and w.family in GR:
        # model_from_str(text, encoding=E) without a file name does not hand E on to the files its provider loads
        # (DESIGN.md section 6, "noticed": no sentence of a claimed property) - not generated
        return False
    return w.family in GR or not w.files[F].imports


def op_load(ctx, prop, sysm, w, F, params, cache, famtag, global_repo, as_str, shapes):
    entry = as_str if isinstance(as_str, str) else ("str" if as_str else "file")
    anon = entry == "anon"
    as_str = entry == "str"
    new = new_files(w, F, cache, anon)
    sysm.opens.clear()
    sysm.sched.resolved.clear()
    sysm.sched.calls.clear()
    before = dict(cache)
    try:
        model = do_load(sysm, w, F, params, entry)
    except Budget:
        ctx.violate("C09", "non-termination", famtag, "budget")
        return False
    except Exception as e:
        ctx.violate(prop if prop in ("C17", "C27") else "C17", "valid-load-fails", famtag + ("/anon" if anon else ""),
                    f"load of {os.path.relpath(F, ROOT)} failed: {dump_error(e)}")
        return False
    # files of the second language that its own global repository already holds are served from there
    borrowed = [f for f in new if f != F and f in sysm.cache2]
    if borrowed:
        ctx.probe("import-served-from-the-other-language's-repository")
    # ---- opens: each new file exactly once (a string load does not read its own file)
    want_opens = sorted(f for f in new if not (as_str and f == F) and f not in borrowed)
    if sorted(sysm.opens) != want_opens:
        ctx.violate("C17", "load-once", famtag,
                    f"opened {[os.path.relpath(x, ROOT) for x in sorted(sysm.opens)]}, expected "
                    f"{[os.path.relpath(x, ROOT) for x in want_opens]}")
    if F in cache and not anon:
        ctx.probe("cached-reload")
        if model is not cache[F]:
            ctx.violate("C17", "cached-reload", famtag, f"repeated load of {os.path.relpath(F, ROOT)} returned another model")
    if anon:
        ctx.probe("anonymous-string-entry")
    by_file = check_models(ctx, True, sysm, w, model, F, before if global_repo else {}, new, famtag,
                           "/anon" if anon else "", anon_model=model if anon else None)
    if anon:
        got = dict(getattr(model, "_tx_model_params", {"<missing>": True}))
        if got != params:
            ctx.violate("C27", "params-reach-every-model", f"{w.family}/anon-main",
                        f"the string model has parameters {got}, the load was given {params}")
    for f in borrowed:
        if by_file.get(f) is not sysm.cache2[f]:
            ctx.violate("C17", "cached-identity", famtag + "/second-language",
                        f"{os.path.relpath(f, ROOT)} was loaded directly with its own language before; the importing "
                        f"model got another instance")
    # ---- C27: parameters on every model created by this load; cached models keep theirs
    for f in new:
        m = by_file.get(f)
        if m is None or f in borrowed:
            continue
        got = dict(getattr(m, "_tx_model_params", {"<missing>": True}))
        if got != params:
            path = "main" if f == F else "imported"
            ctx.violate("C27", "params-reach-every-model", f"{w.family}/{path}",
                        f"{os.path.relpath(f, ROOT)} has parameters {got}, the load was given {params}")
    for f, m in before.items():
        if global_repo and f in sysm.params_at:
            if dict(m._tx_model_params) != sysm.params_at[f]:
                ctx.violate("C27", "cached-models-keep-params", w.family,
                            f"cached {os.path.relpath(f, ROOT)} changed parameters")
    if global_repo:
        for f in new:
            if f in by_file:
                cache[f] = by_file[f]
                sysm.params_at[f] = dict(params) if f not in borrowed else {}
    # reach
    if len(new) > 1:
        ctx.nontrivial = True
    shape = (len(new), F in before, bool(params))
    shapes.add(shape)
    cyc = any(F in w.direct_imports(g) for g in new if g != F) or F in w.direct_imports(F)
    if cyc:
        ctx.probe("cycle-or-self-import")
    if any(len(v) > 1 for v in w.targets.values()):
        ctx.probe("glob-hits-several-files")
    if getattr(w, "two_langs", False) and len({os.path.splitext(f)[1] for f in new}) > 1:
        ctx.probe("closure-crosses-the-language-border")
    if before and new and global_repo:
        ctx.probe("partly-cached-closure")
    return True


def op_undeclared(ctx, sysm, w, F, params, cache, famtag, t):
    bad = dict(params)
    bad[t.pick([n for n in ["p3", "P1", "project_roots", "debug_", "source"] if n not in sysm.declared], "bad-name")] = 1
    sysm.opens.clear()
    am = sysm.all_models()
    before = list(am) if am is not None else None
    how = t.draw(3, "undeclared-entry")
    try:
        if how == 1:
            sysm.mm.model_from_str(w.files[F].text, **bad)  # (rejected before anything is read)
        elif how == 2:
            sysm.mm.model_from_str(w.files[F].text, file_name=F, **bad)
        else:
            sysm.mm.model_from_file(F, **bad)
        ctx.violate("C27", "undeclared-rejected", w.family, f"undeclared parameter accepted: {sorted(bad)}")
    except TextXError:
        pass
    except Exception as e:
        ctx.violate("C27", "undeclared-rejected", w.family, f"undeclared parameter raised {type(e).__name__}")
    # a parameter declared on this metamodel is undeclared for every other metamodel of the process
    others = [("second-language", sysm.mm2)] if sysm.mm2 is not None else []
    others.append(("unrelated-metamodel", sysm.other_mm()))
    for label, om in others:
        try:
            om.model_from_str("def q0 use qu : q0", p1="x")
            ctx.violate("C27", "undeclared-rejected", w.family + "/" + label,
                        "a parameter declared on another metamodel only was accepted")
        except TextXError:
            pass
        except Exception as e:
            ctx.violate("C27", "undeclared-rejected", w.family + "/" + label, f"raised {type(e).__name__}: {e}")
    if sysm.opens:
        ctx.violate("C27", "undeclared-no-io", w.family, f"files were read before the parameter check: {sysm.opens}")
    if before is not None and [id(x) for x in before] != [id(x) for x in sysm.all_models()]:
        ctx.violate("C27", "undeclared-no-io", w.family, "the repository changed although the parameters were rejected")
    if ctx.prop == "C27":
        ctx.nontrivial = True
    ctx.probe("undeclared-parameter")


CORRUPTIONS = ["syntax", "dangling", "never", "ambiguous", "objproc", "modelproc"]


def op_corrupt_cycle(ctx, prop, sysm, w, F, params, cache, famtag, global_repo, t, wrap, shapes, entry="file",
                     force=None):
    anon = entry == "anon"
    new = new_files(w, F, cache, anon)
    cands = [f for f in new if f == F or f not in sysm.cache2] + ([F] if anon and F not in new else [])
    if not cands:
        return True
    X = t.pick(cands, "failing-file") if force is None else force[0]
    served = [f for f in new if f != F and f in sysm.cache2]
    bias = t.pick(["late", "late", "import-fails-twice", None], "bias-while-another-repository-serves-an-import") \
        if (force is None and served and prop == "C18") else None
    late = bias == "late"
    twice_in_import = None
    if bias == "import-fails-twice":
        # an import that fails while it is being loaded (the clean-up of models under construction), two attempts in
        # a row: the first one leaves the served model in this language's repository, the second one starts from there
        imps = [f for f in cands if f != F]
        if imps:
            twice_in_import = t.pick(imps, "failing-import")
            X = twice_in_import
            ctx.probe("import-fails-twice-while-another-repository-serves-an-import")
    if late:
        # an import of this load is served from the second language's own repository: fail as late as possible (the
        # model processor of the main file), when every cleanup path has that model in its hands
        X = F
        ctx.probe("failure-with-an-import-served-from-the-other-repository")
    role = "main" if X == F else ("direct" if X in w.direct_imports(F) else "transitive")
    if anon:
        role += "-anon"
    kinds = list(CORRUPTIONS)
    if not wrap:
        kinds.remove("never")
    if w.family not in PLAIN:
        kinds.remove("ambiguous")
    if prop == "C28":
        kinds = [k for k in kinds if k not in ("objproc", "modelproc")]
    kind = t.pick(kinds, "corruption") if force is None else force[1]
    if late:
        kind = t.pick(["modelproc", "objproc", "modelproc"], "late-corruption")
    if twice_in_import:
        kind = "syntax"
    if kind not in kinds:
        return True
    fe = w.files[X]
    xrefs = [r for r in w.refs if r.owner.file == X]
    target = None
    exp = None  # (acceptable (file, offset) pairs)
    if kind == "syntax":
        ents = [e for e in w.all_ents(fe) if e.kind != "inner"]
        if not ents:
            return True
        target = t.pick(ents, "syntax-at")
        target.pre_tokens = ["%"]
    elif kind in ("dangling", "never"):
        if not xrefs:
            return True
        target = t.pick(xrefs, "ref")
        if kind == "dangling":
            target.text_override_saved = target.text_override
            target.text_override = "zz9"
            # or: a name that exists, but only in a file that is not visible from X (it may well have been
            # loaded by an earlier operation of this history)
            vis = visible_table(w, X)
            foreign = [d for d in w.defs if d.file not in ([X] + w.direct_imports(X))
                       and (d.qname() if w.qualified else d.name) not in vis]
            if foreign and t.chance(1, 2, "dangling-foreign-name"):
                d = t.pick(foreign, "foreign-def")
                target.text_override = d.qname() if w.qualified else d.name
                ctx.probe("dangling-name-defined-in-an-invisible-file")
        else:
            target.plan = ("never",)
    elif kind == "ambiguous":
        cands = [r for r in xrefs if r.target != "builtin"]
        if not cands:
            return True
        target = t.pick(cands, "ref")
        dup = Ent("def", target.target.name, target.target.file, None)
        dup.idx = len(w.files[target.target.file].items)
        dup.is_dup = True
        if (target.target.file in cache or target.target.file in sysm.cache2) and target.target.file != X:
            return True  # only files that are not cached (in either language's repository) are corrupted
        w.files[target.target.file].items.append(dup)
        target.dup = dup
    elif kind in ("objproc", "modelproc"):
        pass
    w.render()
    w.install(SIMFS)
    ctx.fired(kind)
    ctx.sample["ops"].append(["corrupt", kind, os.path.relpath(X, ROOT), role])
    # ---- the failing attempt (sometimes made twice in a row: what the first failure leaves behind is the state
    # the second one starts from)
    nattempts = 2 if (force is None and prop == "C18" and t.chance(1, 3, "the-failing-load-is-tried-twice")) else 1
    if twice_in_import:
        nattempts = 2
    for attempt in range(nattempts):
        if attempt:
            ctx.probe("failing-load-tried-twice")
        am = sysm.all_models()
        snap = [(k, id(v)) for k, v in am.filename_to_model.items()] if am is not None else None
        sysm.opens.clear()
        sysm.sched.resolved.clear()
        sysm.sched.calls.clear()
        if kind in ("objproc", "modelproc"):
            sysm.proc_exc = t.pick(["tx", "tx", "value", "app"], "processor-raises")
        if kind == "objproc":
            sysm.fail_objproc_for = "<anon>" if (anon and X == F) else X
        elif kind == "modelproc":
            sysm.fail_modelproc_for = "<anon>" if (anon and X == F) else X
        err = None
        w.inner_suspended = kind == "never"
        am2 = sysm.mm2._tx_model_repository.all_models if getattr(w, "mm2_repo", False) and sysm.mm2 is not None else None
        snap2 = [(k, id(v)) for k, v in am2.filename_to_model.items()] if am2 is not None else None
        try:
            model = do_load(sysm, w, F, params, entry)
            outcome = "ok"
            del model
        except Budget:
            ctx.violate("C09", "non-termination", famtag, "budget")
            return False
        except TextXError as e:
            outcome = "error"
            err = dump_error(e)
            etype = type(e)
        except Exception as e:
            # the processor's own exception reaching the caller is the expected failure of that load
            own = kind in ("objproc", "modelproc") and sysm.proc_exc != "tx" and \
                type(e) is (ValueError if sysm.proc_exc == "value" else InjectedProcError) and str(e) == "injected"
            outcome = "error" if own else "crash"
            err = dump_error(e)
        ctx.ev("attempt", kind, role, outcome, err)
        fclass = f"{kind}/{role}/{famtag}" + (f"/raises-{sysm.proc_exc}" if kind in ("objproc", "modelproc") and sysm.proc_exc != "tx" else "")
        if outcome == "ok":
            ctx.violate(prop if prop in ("C18", "C28") else "C18", "corrupted-load-succeeds", fclass,
                        f"{kind} in {os.path.relpath(X, ROOT)} ({role}) did not make the load of "
                        f"{os.path.relpath(F, ROOT)} fail")
        elif outcome == "crash":
            ctx.violate("C28" if prop == "C28" else "C18", "non-textx-error", fclass, f"load raised {err}")
        else:
            ctx.probe("failed:" + kind + ":" + role)
            if prop in ("C18", "C28"):
                ctx.nontrivial = True
            # ---- C28 location
            if kind in ("syntax", "dangling", "never", "ambiguous"):
                check_location(ctx, w, X, kind, target, err, fclass, F if anon else None, F in new)
        # ---- C18: repositories equal the pre-attempt snapshot
        if outcome != "ok":
            am = sysm.all_models()
            if am is not None:
                now = [(k, id(v)) for k, v in am.filename_to_model.items()]
                # (a complete model that the second language's own repository held before the attempt may get registered)
                before_ids = {i for _, i in snap} | {id(m) for m in sysm.cache2.values()}
                # no model of the failed attempt may remain (new objects), and every file cached earlier must still be
                # there.  String models without a file name are registered as "anonymous<i>" and a later string model
                # takes over the slot of an earlier one (has_model() compares abspath("anonymous0") with the raw key) -
                # that quirk happens on successful loads too and is not what this property is about.
                extra = [os.path.relpath(k, ROOT) if os.path.isabs(k) else k for k, i in now if i not in before_ids]
                lost = [os.path.relpath(k, ROOT) for k, i in snap if os.path.isabs(k) and (k, i) not in now]
                if extra or lost:
                    ctx.violate("C18", "repo-clean-after-failure", fclass,
                                f"after the failed load the global repository has extra {extra}, lost {lost}")
                    # (C18 / C28 judge the repaired reload on its own; under C17 the left-overs stay where they
                    # are: what they do to the next loads - a file parsed again next to its cached model, references
                    # into models of the failed attempt - is C17's business)
                    for k, i in now:
                        if i not in before_ids and prop != "C17":
                            del am.filename_to_model[k]
            if am2 is not None:
                # the second language's own global repository is a surviving repository too: what it cached before the
                # attempt stays, nothing the attempt loaded remains
                now2 = [(k, id(v)) for k, v in am2.filename_to_model.items()]
                extra2 = [os.path.relpath(k, ROOT) for k, i in now2 if (k, i) not in snap2]
                lost2 = [os.path.relpath(k, ROOT) for k, i in snap2 if (k, i) not in now2]
                if extra2 or lost2:
                    ctx.violate("C18", "other-language-repository-clean", fclass,
                                f"after the failed load the second language's repository has extra {extra2}, lost {lost2}")
                    for k, i in now2:
                        if (k, i) not in snap2:
                            del am2.filename_to_model[k]
                    for k, i in snap2:
                        if (k, i) not in now2 and k in sysm.cache2:
                            am2.filename_to_model[k] = sysm.cache2[k]
            for f, m in cache.items():
                rep = getattr(m, "_tx_model_repository", None)
                if rep is not None:
                    names = {fname(x) for x in rep.all_models}
                    if not names <= set(cache) | {None} | set(sysm.cache2):
                        ctx.violate("C18", "surviving-repository-clean", fclass,
                                    f"repository of cached {os.path.relpath(f, ROOT)} holds models of the failed attempt")
                        break
    # ---- repair and reload
    w.inner_suspended = False
    _undo(w, kind, target, sysm)
    ctx.sample["ops"].append(["repair+load", os.path.relpath(F, ROOT)])
    ok = op_load(ctx, "C18" if prop in ("C18", "C28") else prop, sysm, w, F, params, cache, famtag, global_repo,
                 entry if t.chance(1, 2, "reload-same-entry") else "file", shapes)
    return ok


def op_bulk(ctx, prop, sysm, w, cache, famtag, global_repo, t, wrap):
    """GlobalRepo.load_models_in_model_repo(global_model_repo=<a repository the caller owns and keeps>): every file
    of the patterns is loaded as a main model of its registered language into the caller's repository.  C18 speaks of
    "any surviving repository": after a failing bulk load the caller's repository equals its snapshot; after the
    repair it is complete and consistent (C17 oracle)."""
    from textx.scoping import GlobalModelRepository

    base = sysm.prov.base if wrap else sysm.prov
    if getattr(sysm, "caller_repo", None) is None:
        sysm.caller_repo = GlobalModelRepository()
        textx.clear_language_registrations()
        textx.register_language("lang-m", pattern="*.m", metamodel=sysm.mm)
    repo = sysm.caller_repo
    have = {fname(m) for m in repo.all_models}
    todo = [f for f in w.gr_files if f not in have]
    fail = prop == "C18" and todo and t.chance(2, 3, "bulk-fails")
    X = kind = target = None
    if fail:
        X = t.pick([f for f in todo if f not in cache] or todo, "bulk-failing-file")
        if X in cache:
            fail = False
    if fail:
        xrefs = [r for r in w.refs if r.owner.file == X]
        kind = t.pick((["syntax", "dangling"] if xrefs else ["syntax"]) + ["modelproc", "objproc"], "bulk-corruption")
        if kind in ("modelproc", "objproc"):
            # a processor of the failing file raises: object processors need an object of the processed rule
            if kind == "objproc" and not any(d.file == X for d in w.defs):
                kind = "modelproc"
            sysm.proc_exc = t.pick(["tx", "value", "app"], "bulk-processor-raises")
            if kind == "objproc":
                sysm.fail_objproc_for = X
            else:
                sysm.fail_modelproc_for = X
        elif kind == "syntax":
            ents = [e for e in w.all_ents(w.files[X]) if e.kind != "inner"]
            if not ents:
                fail = False
            else:
                target = t.pick(ents, "bulk-syntax-at")
                target.pre_tokens = ["%"]
        else:
            target = t.pick(xrefs, "bulk-ref")
            target.text_override_saved = target.text_override
            target.text_override = "zz9"
        if fail:
            w.render()
            w.install(SIMFS)
            ctx.fired("bulk-" + kind)
    ctx.sample["ops"].append(["bulk-load-into-caller-repository", kind, os.path.relpath(X, ROOT) if X else None])
    snap = [(k, id(v)) for k, v in repo.all_models.filename_to_model.items()]
    sysm.opens.clear()
    sysm.sched.resolved.clear()
    sysm.sched.calls.clear()
    sysm.sched.anon_file = None
    err = None
    try:
        base.load_models_in_model_repo(global_model_repo=repo, **({"encoding": w.encoding} if w.encoding else {}))
        outcome = "ok"
    except TextXError as e:
        outcome = "error"
        err = dump_error(e)
    except Exception as e:
        own = kind in ("objproc", "modelproc") and str(e) == "injected" and not isinstance(e, TextXError)
        outcome = "error" if own else "crash"
        err = dump_error(e)
    ctx.ev("bulk", outcome, kind)
    fclass = f"bulk/{kind}/{famtag}"
    if fail:
        if outcome == "ok":
            ctx.violate("C18", "corrupted-load-succeeds", fclass, f"{kind} in {os.path.relpath(X, ROOT)}: the bulk load succeeded")
        else:
            ctx.probe("failed:bulk:" + kind)
            ctx.nontrivial = True
            now = [(k, id(v)) for k, v in repo.all_models.filename_to_model.items()]
            before_ids = {i for _, i in snap}
            extra = [os.path.relpath(k, ROOT) for k, i in now if i not in before_ids]
            lost = [os.path.relpath(k, ROOT) for k, i in snap if (k, i) not in now]
            if extra or lost:
                ctx.violate("C18", "surviving-repository-clean", fclass,
                            f"after the failed bulk load the caller's repository has extra {extra}, lost {lost}")
                for k, i in now:
                    if i not in before_ids:
                        del repo.all_models.filename_to_model[k]
        _undo(w, kind, target, sysm)
        sysm.opens.clear()
        try:
            base.load_models_in_model_repo(global_model_repo=repo, **({"encoding": w.encoding} if w.encoding else {}))
        except Exception as e:
            ctx.violate("C18", "repaired-load-fails", fclass, f"after the repair the bulk load fails: {dump_error(e)}")
            return False
    elif outcome != "ok":
        ctx.violate("C17", "valid-load-fails", "bulk/" + famtag, f"bulk load failed: {err}")
        return False
    # ---- complete and consistent: one model per file, references point into them
    by_file = {}
    for m in repo.all_models:
        fn = fname(m)
        if fn in by_file and by_file[fn] is not m:
            ctx.violate("C17", "single-model-per-file", "bulk/" + famtag, f"two models for {fn} in the caller's repository")
        by_file[fn] = m
    if set(by_file) != set(w.gr_files):
        ctx.violate("C17", "repository-content", "bulk/" + famtag,
                    f"caller's repository holds {sorted(os.path.relpath(x, ROOT) for x in by_file if x)}, the patterns match "
                    f"{sorted(os.path.relpath(x, ROOT) for x in w.gr_files)}")
        return True
    if not fail:
        want_opens = sorted(f for f in todo if f not in cache)
        if sorted(sysm.opens) != want_opens:
            ctx.violate("C17", "load-once", "bulk/" + famtag,
                        f"opened {[os.path.relpath(x, ROOT) for x in sorted(sysm.opens)]}, expected "
                        f"{[os.path.relpath(x, ROOT) for x in want_opens]}")
    for u in w.uses:
        if u.file not in by_file:
            continue
        uo = locate(by_file[u.file], u.path())
        lst = [r for r in u.refs if r.attr == "refs"]
        pairs = list(zip(lst, list(uo.refs))) + [(r, uo.one) for r in u.refs if r.attr == "one"]
        if len(uo.refs) != len(lst):
            ctx.violate("C17", "reference-identity", "bulk/" + famtag, f"{u.sid()}.refs has {len(uo.refs)} entries")
            continue
        for r, o in pairs:
            if r.target == "builtin":
                continue
            exp = locate(by_file[r.target.file], r.target.path()) if r.target.file in by_file else None
            if o is not exp:
                ctx.violate("C18" if fail else "C17", "reference-identity" if not fail else "repaired-load-identities",
                            "bulk/" + famtag, f"{r.key} resolved to {getattr(o, 'name', o)!r} which is not the element of the "
                                              f"single model of {os.path.basename(r.target.file)}")
                return True
    ctx.probe("bulk-load-ok")
    return True


def op_builtin_dup(ctx, w, t, wrap, famtag):
    """C28: the duplicate names live in a *builtin model* (loaded from a string: no file name); the reference is in
    a file or in a string model without file name.  The error must be located at the reference."""
    dup = "x0"
    s2 = Sys(ctx, w, t, False, wrap, builtin_text=f"\n\n  def {dup}\n def x1\n    def {dup}")
    files = list(w.files)
    F = t.pick(files, "bd-file")
    entry = "anon" if anon_allowed(w, F) and t.chance(1, 2, "bd-anon") else "file"
    anon = entry == "anon"
    new = new_files(w, F, {}, anon)
    scope = list(new) + ([F] if anon else [])
    hits = [r for r in w.refs if r.owner.file in scope and r.target == "builtin" and r.text == dup]
    if not hits:
        return
    try:
        do_load(s2, w, F, {"project_root": ROOT} if getattr(w, "gr_relative", False) else {}, entry)
        ctx.violate("C28", "corrupted-load-succeeds", "builtin-dup/" + famtag, "duplicate names in the builtin model: load succeeded")
        return
    except TextXError as e:
        err = dump_error(e)
    except Exception as e:
        ctx.violate("C28", "non-textx-error", "builtin-dup/" + famtag, f"{dump_error(e)}")
        return
    ctx.fired("ambiguous-in-builtin-model")
    ctx.nontrivial = True
    if "not unique" not in err["msg"]:
        ctx.violate("C28", "error-kind", "builtin-dup/" + famtag, f"expected a 'not unique' error, got {err['msg']}")
        return
    accept = []
    for r in hits:
        f = r.owner.file
        lc = linecol(w.files[f].text, r.pos)
        if anon and f == F:
            accept.append((None, lc))
            if F in new:
                accept.append((f, lc))
        else:
            accept.append((f, lc))
    got = (SIMFS.canon(err.get("filename")), (err.get("line"), err.get("col")))
    if got not in accept:
        clause = "filename" if not any(got[0] == a[0] for a in accept) else "line-col"
        ctx.violate("C28", clause, "builtin-dup/" + ("anon/" if anon else "") + famtag,
                    f"error located at {got[0]}:{got[1][0]}:{got[1][1]}, the references to the duplicated builtin name "
                    f"are at " + " or ".join(f"{a[0]}:{a[1][0]}:{a[1][1]}" for a in accept))


def _undo(w, kind, target, sysm):
    if kind == "syntax":
        target.pre_tokens = []
    elif kind == "dangling":
        target.text_override = target.text_override_saved
    elif kind == "never":
        target.plan = ("now",)
    elif kind == "ambiguous":
        w.files[target.dup.file].items.remove(target.dup)
    sysm.fail_modelproc_for = None
    sysm.fail_objproc_for = None
    w.render()
    w.install(SIMFS)


def check_location(ctx, w, X, kind, target, err, fclass, anon_main=None, anon_also_file=False):
    """anon_main: the file whose text was loaded as a string without file name (its errors carry filename None;
    when a pattern also loads that file as a file, either is consistent)."""
    text = w.files[X].text
    if kind == "syntax":
        # the injected token is the first token emitted for `target`
        off = None
        toks = w.files[X].tokens
        for i, (a, s, role) in enumerate(toks):
            if role == "injected":
                off = a
                break
        accept = [(X, linecol(text, off))]
        want_type = "TextXSyntaxError"
    else:
        accept = [(X, linecol(text, target.pos))]
        want_type = "TextXSemanticError"
        if kind == "ambiguous":
            # any reference to the duplicated name may be the one that trips, and the statement does not say
            # whether the reference or a duplicate definition is "the offending text": accept each consistent one
            g = target.dup.file
            gt = w.files[g].text
            accept.append((g, linecol(gt, target.dup.start)))
            accept.append((g, linecol(gt, target.target.start)))
            for r2 in w.refs:
                if r2.target is target.target:
                    accept.append((r2.owner.file, linecol(w.files[r2.owner.file].text, r2.pos)))
    if err["type"] != want_type:
        ctx.violate("C28", "error-type", fclass, f"expected {want_type}, got {err['type']}: {err['msg']}")
        return
    msg = err["msg"]
    marker = {"dangling": "Unknown object", "never": "Unresolvable cross references", "ambiguous": "not unique"}.get(kind)
    if marker and marker not in msg:
        ctx.violate("C28", "error-kind", fclass, f"expected a {marker!r} error, got: {msg}")
        return
    if anon_main is not None:
        acc2 = []
        for f, lc in accept:
            if f == anon_main:
                acc2.append((None, lc))
                if anon_also_file:
                    acc2.append((f, lc))
            else:
                acc2.append((f, lc))
        accept = acc2
    got = (SIMFS.canon(err.get("filename")), (err.get("line"), err.get("col")))
    if got not in accept:
        mixed = any(got[0] == a[0] for a in accept) or any(got[1] == a[1] for a in accept)
        clause = "filename" if not any(got[0] == a[0] for a in accept) else "line-col"
        ctx.violate("C28", clause, fclass,
                    f"error located at {got[0]}:{got[1][0]}:{got[1][1]}, offending text is at "
                    + " or ".join(f"{a[0]}:{a[1][0]}:{a[1][1]}" for a in accept))


RULES = {
    "C17": "one run = a generated directory of 2-6 model files (cycles, diamonds, self-imports, duplicate imports, "
           "'..' paths, glob patterns, search path, GlobalRepo patterns, RREL +m), one provider family of 7, global "
           "repository on/off, optional builtin model, name shadowing (file over import, import over builtin), drawn "
           "glob result order; a history of 2-6 loads of drawn files; opens counted at the SimFS seam; non-trivial = a "
           "load read more than one file; distinct = (family, repository mode, load shapes, operation list)",
    "C18": "W4 histories in which loads are preceded by a corruption of a drawn file of NEW(F) (role main / direct / "
           "transitive) in a drawn phase (syntax, dangling, never-resolving, ambiguous, object processor, model "
           "processor), followed by repair and reload; repository contents compared by identity with the pre-attempt "
           "snapshot; non-trivial = the corrupted load failed. THOROUGH tier: for every generated graph, every file of the "
           "main file's closure fails in every phase, each on a fresh system",
    "C27": "W4 histories with declared parameters (p1, p2, project_root) on drawn loads and loads with an undeclared "
           "keyword; every model created by a load must expose exactly the given mapping, cached models keep theirs; "
           "rejected loads must not read files or change repositories; non-trivial = several files read or an "
           "undeclared parameter tried",
    "C28": "W4 corruption cycles with syntax / dangling / never / ambiguous faults at a known offset of a known file "
           "(main, direct or transitive import); filename/line/col compared with the harness's own line table. THOROUGH "
           "tier: every file of the closure x every error kind per generated graph",
}
ASSUMPTIONS = {
    "C17": ["no name is defined by two different direct imports of one file (the statement does not order them)",
            "FQN trees are collision free apart from the generated shadows"],
    "C18": ["only files that are not cached are corrupted; one corruption at a time"],
    "C27": ["parameter values are small strings / ints / None"],
    "C28": ["syntax faults are a '%' token inserted at a token start; for duplicates living in another file than "
            "the reference either consistent location is accepted"],
}
