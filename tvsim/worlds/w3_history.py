"""
W3 - history world (C16).  DESIGN.md section 3/W3 and 4/C16.

A catalogue of metamodel configurations x inputs is derived from VERIF_SEED.
prepare() computes, for every (configuration, input, mode) the *reference
outcome* in a freshly forked child of the pristine main process (fresh process
state: one new metamodel, one load) and memoises it.  A run is a history of
<= 24 operations (new metamodel - also from an invalid grammar -, load from
string, load from virtual file) interleaved over up to 4 live metamodels; every
operation's outcome must equal the memoised fresh-process outcome.
"""

import io
import os

import textx  # noqa
from textx import metamodel_from_str
from textx.exceptions import TextXError, TextXSemanticError
from textx.scoping import Postponed
import textx.scoping.providers as sp
from textx.scoping.rrel import create_rrel_scope_provider

from .. import core
from ..dump import dump_error, dump_model
from ..gen import gen_world, grammar as items_grammar
from ..seams import SIMFS
from .w2_lifecycle import make_class, ATTRS

MODS_GRAMMAR = r"""
Model: things*=Thing;
Thing: Word | Num | Str | Pair | Glue | Kw | Re;
Word: 'word' name=ID;
Num: 'num' i=INT f=FLOAT b=BOOL n=NUMBER;
Str: 'str' s=STRING;
Pair[noskipws]: 'pair' ' ' a=ID '-' b=ID;
Glue[ws=' \t']: 'glue' a=ID b=ID;
Kw: 'begin' name=ID 'end';
Re: 'rx' v=/(\d+)x/;
Comment: /\/\/.*$/;
"""

MODS_INPUTS = [
    "word a word b num 1 2.5 true 7 str 'x y'",
    "word a // comment\n num 3 1e3 false 2.5 pair a-b glue c d",
    "begin k end rx 12x str \"q\" word zz",
    "WORD a Word b",  # valid only with ignore_case
    "beginx end",  # autokwd matters
    "word a pair a - b",  # noskipws violation
    "glue a\nb",  # ws violation
    "num 1 2 3",  # syntax error (FLOAT/BOOL)
    "word",  # premature end
    "str 'unterminated",
    "  \n\n word a\n\n   word   b   \n",
    "rx 5x rx 77x begin b end begin c end",
    "num 1 2.5 TRUE 7",  # the shared base-type rules (BOOL ...) keep the case sensitivity of *this* metamodel
    "num 1 2.5 False 7 word TRUE word False",
]

# two languages that use the same rule names with another inheritance: what one metamodel knows about "is a Circle a
# Shape" is nobody else's business
SHAPES_GRAMMARS = {
    "shapes1": """
Model: shapes*=Shape tris*=Tri refs*=Ref;
Shape: Circle | Square;
Circle: 'circle' name=ID;
Square: 'square' name=ID;
Tri: 'tri' name=ID;
Ref: 'ref' s=[Shape];
""",
    "shapes2": """
Model: shapes*=Shape circles*=Circle refs*=Ref;
Shape: Square | Tri;
Circle: 'circle' name=ID;
Square: 'square' name=ID;
Tri: 'tri' name=ID;
Ref: 'ref' s=[Shape];
""",
}
SHAPES_INPUTS = [
    "circle c ref c",      # shapes1: fine; shapes2: c is no Shape -> Unknown object
    "square s ref s",
    "tri t ref t",         # shapes1: t is no Shape; shapes2: fine
    "square s circle c tri t ref s",
    "circle c square c2 ref c2 ref c",
]

BAD_GRAMMARS = [
    "Model: 'a' x=Undefined;",
    "Model: 'a' x=INT",  # missing ;
    "Model: x=/[/;",
    "",
]

ITEM_USER = ["Def", "Box", "Use", "Model"]


class NullRec:
    def on_new(self, o):
        pass

    def on_init(self, o, name, kw):
        pass


class PostponeOnce:
    """A scripted provider with a fixed per-input schedule: every reference at
    an odd offset answers Postponed on its first call."""

    def __init__(self, base):
        self.base = base
        self.seen = {}

    def __call__(self, obj, attr, obj_ref):
        if obj_ref.position % 2 == 1:
            k = id(obj_ref)
            if self.seen.get(k) is not obj_ref:
                if len(self.seen) > 5000:
                    self.seen.clear()
                self.seen[k] = obj_ref
                return Postponed()
        return self.base(obj, attr, obj_ref)


def gen_catalogue(seed):
    t = core.Tape(seed=core.run_seed(seed, "C16-catalogue", 0))
    cfgs = []
    kinds = ["default", "fqn", "rrel", "postpone-once", "plain", "plain-single-mm", "plainuri", "fqnuri"]
    nitem = 0
    for i in range(19):
        template = "items" if i % 3 != 2 or i >= 12 else "mods"
        cfg = {
            "template": template,
            "memoization": t.chance(1, 2, "memo"),
            "autokwd": t.chance(1, 3, "autokwd"),
            "ignore_case": t.chance(1, 4, "ignore_case"),
            "auto_init_attributes": not t.chance(1, 4, "no-auto-init"),
            "textx_tools_support": t.chance(1, 3, "tools"),
            "use_regexp_group": t.chance(1, 2, "regexp-group"),
            "skipws": True,
            "ws": None,
            # a cached reload returns the same object, but every outcome must still dump equal to a fresh process -
            # in particular a file whose load *failed* must fail again
            "global_repository": t.chance(1, 3, "global-repository"),
        }
        if template == "mods" and t.chance(1, 4, "ws"):
            cfg["ws"] = " \t\n"
        if template == "items":
            # every provider kind at least once, then drawn
            cfg["provider"] = kinds[nitem] if nitem < len(kinds) else t.pick(kinds, "provider")
            nitem += 1
            if cfg["provider"] == "plainuri":
                cfg["global_repository"] = True  # imports + a repository shared by all loads of the metamodel
            n = t.draw(3, "nclasses")
            names = []
            for _ in range(n):
                c = t.pick(ITEM_USER, "cls")
                if c not in names:
                    names.append(c)
            variants = ["plain", "slots", "frozen", "dataclass", "own-dunders", "inherited-dunders"]
            cfg["classes"] = [(c, t.pick(variants[:1] + variants[4:] if c == "Model" else variants, "variant"))
                              for c in names]
            cfg["procs"] = t.pick(["none", "record", "replace", "boom"], "procs")
            # a model processor that changes the model (not idempotent): it has to run once per model, however often
            # a cached model is handed out again
            cfg["model_processor"] = t.chance(1, 3, "mutating-model-processor") or i in (14, 16, 18)
            if i >= 17:
                # import provider with a search path: the directories searched are those of the provider's configuration
                # and of the importing file, whatever was loaded before from other directories
                cfg["provider"] = "plainuri-sp"
                cfg["global_repository"] = i == 18
            elif i >= 14:
                # always in the catalogue, whatever the seed: an import provider with a repository shared by all loads
                # and user classes whose finished objects differ most from objects under construction (a model cached
                # by an earlier load is finished when a later load looks names up in it)
                cfg["provider"] = ["fqnuri", "plainuri", "fqnuri"][i - 14]
                cfg["global_repository"] = True
                cfg["classes"] = [[("Box", "slots"), ("Def", "own-dunders")], [("Use", "slots"), ("Box", "frozen"), ("Def", "slots")],
                                  [("Box", "dataclass"), ("Def", "frozen"), ("Use", "own-dunders")]][i - 14]
        else:
            cfg["provider"] = "default"
            cfg["classes"] = []
            cfg["procs"] = t.pick(["none", "record"], "procs")
        cfgs.append(cfg)
    cfgs.append({"template": "items", "memoization": False, "autokwd": False, "ignore_case": False,
                 "auto_init_attributes": True, "textx_tools_support": False, "use_regexp_group": False,
                 "skipws": True, "ws": None, "global_repository": False, "provider": "default",
                 "classes": [("Box", "plain"), ("Wrap", "plain"), ("Model", "plain")], "procs": "triple", "model_processor": False,
                 "shared_classes": True})
    for gr in (False, True):
        cfgs.append({"template": "items", "memoization": False, "autokwd": False, "ignore_case": False,
                     "auto_init_attributes": True, "textx_tools_support": False, "use_regexp_group": False,
                     "skipws": True, "ws": None, "global_repository": gr, "provider": "plaingr-rel", "classes": [],
                     "procs": "none", "model_processor": False})
    for name in ("shapes1", "shapes2"):
        cfgs.append({"template": name, "memoization": False, "autokwd": False, "ignore_case": False,
                     "auto_init_attributes": True, "textx_tools_support": False, "use_regexp_group": False,
                     "skipws": True, "ws": None, "global_repository": False, "provider": "default", "classes": [],
                     "procs": "none"})
    # inputs of the items template: generated single-file worlds, valid and invalid
    items_inputs = []
    seen_names = set()
    from ..gen import Ref
    for j in range(11):
        qualified = j % 2 == 1
        # '::' names with several parts only resolve with RREL (FQN splits at '.'): inputs 1 and 5 carry them and are
        # "valid" for the RREL configurations only - what matters here is that history does not change the outcome
        w = gen_world(t, "/sim/w3gen", nfiles=1, qualified=qualified, max_refs=8, vals=True,
                      alt_multipart=j in (1, 5, 10))
        fe = w.files[w.main]
        kind = ["valid", "valid", "valid", "syntax", "dangling", "ambiguous", "valid", "boom", "matchboom",
                "matchboom", "colons"][j]
        if kind == "valid":
            # a definition no other input has: the dangling input below refers to one of them
            fe.tail_tokens = ["def", f"only{j}"]
            seen_names.add(f"only{j}")
        if kind == "syntax":
            ents = [e for e in w.all_ents(fe) if e.kind != "inner"]
            t.pick(ents, "syntax-at").pre_tokens = ["%"]
        elif kind == "dangling" and w.refs:
            # a name this input does not define but *earlier inputs do*: a table of named objects that survives from
            # one load to the next would resolve it
            own = {d.name for d in w.defs}
            foreign = sorted({n for n in seen_names if n not in own})
            t.pick(w.refs, "dangling-ref").text_override = t.pick(foreign, "dangling-name") if foreign else "zz9"
        elif kind == "ambiguous" and w.refs:
            r = t.pick(w.refs, "amb-ref")
            fe.tail_tokens = ["def", r.target.name]
        elif kind == "colons":
            # a multi-part name written with the '::' match rule next to '.' names: resolvable by RREL only
            # (a model whose references all use the '::' rule: a provider must not remember the '.' of earlier loads)
            w.files[w.main].items[:] = []
            w.files[w.main].imports[:] = []
            fe.tail_tokens = ["box", "cbx", "{", "def", "cbd", "def", "cbe", "}", "altuse", "cu", ":", "cbx::cbd", ",",
                              "cbx::cbe"]
        elif kind == "boom":
            fe.tail_tokens = ["def", "boom"]
        elif kind == "matchboom":
            # a match-rule processor raising in the middle of the object-graph construction, two levels deep
            fe.tail_tokens = ["box", "mbx", "{", "box", "mby", "{", "def", "mbd", "#tboom", "}", "def", "mbe", "}"]
        w.render()
        items_inputs.append({"kind": kind, "text": fe.text, "qualified": qualified})
    mods_inputs = [{"kind": "fixed", "text": s} for s in MODS_INPUTS]
    # multi-file inputs for the import providers: two libraries define the same name, each main file sees one of
    # them (or none): what an earlier load imported must not be visible to a later load
    lib = {
        "/sim/w3m/lib1.m": "def x def only1 box bx { def y }",
        "/sim/w3m/lib2.m": "\n\ndef x = 12 def only2 box bx { def y = 9 }",
        "/sim/w3m/sub/lib3.m": 'import "../lib1.m" def z use uz : x',
    }
    multi = [
        {"kind": "imports-lib1", "path": "/sim/w3m/a.m", "text": 'import "lib1.m" use ua : x , only1 one bx.y'},
        {"kind": "imports-lib2", "path": "/sim/w3m/b.m", "text": 'import "lib2.m"\nuse ub : x , only2 one bx.y'},
        {"kind": "no-import-dangling", "path": "/sim/w3m/c.m", "text": "def own use uc : own , x"},
        {"kind": "no-import-dangling2", "path": "/sim/w3m/d.m", "text": "def own use ud : only2"},
        {"kind": "imports-lib3", "path": "/sim/w3m/e.m", "text": 'import "sub/lib3.m" use ue : z'},
        {"kind": "imports-both-order", "path": "/sim/w3m/f.m", "text": 'import "lib2.m" import "lib1.m" use uf : only1 , only2'},
        {"kind": "syntax-in-import", "path": "/sim/w3m/g.m", "text": 'import "bad.m" use ug : x'},
    ]
    # a load that fails in reference resolution *after* its import has been loaded
    multi.append({"kind": "imports-lib2-dangling", "path": "/sim/w3m/i.m", "text": 'import "lib2.m" def mine = 30 use ui : x , nothere'})
    multi.append({"kind": "imports-lib1-boom", "path": "/sim/w3m/h.m", "text": 'import "lib1.m" def boom use uh : x'})
    lib["/sim/w3m/bad.m"] = "def x %"
    # search-path inputs: "lib.m" next to the importing file wins, otherwise the one on the search path
    lib["/sim/w3sp/proj1/lib.m"] = "def x = 1 def p1only"
    lib["/sim/w3sp/shared/lib.m"] = "def x = 100 def sharedonly"
    lib["/sim/w3sp/shared/extra.m"] = "def e = 7"
    lib["/sim/w3sp/proj3/extra.m"] = "def e = 3"
    multi_sp = [
        {"kind": "sp-own-dir", "path": "/sim/w3sp/proj1/main.m", "text": 'import "lib.m" use u : x , p1only'},
        {"kind": "sp-shared", "path": "/sim/w3sp/proj2/main.m", "text": 'import "lib.m" use u : x , sharedonly'},
        {"kind": "sp-shared-dangling", "path": "/sim/w3sp/proj2/other.m", "text": 'import "lib.m" use u : p1only'},
        {"kind": "sp-own-extra", "path": "/sim/w3sp/proj3/main.m", "text": 'import "extra.m" import "lib.m" use u : e , x'},
        {"kind": "sp-shared-extra", "path": "/sim/w3sp/proj1/second.m", "text": 'import "extra.m" use u : e'},
        {"kind": "sp-missing", "path": "/sim/w3sp/proj2/missing.m", "text": 'import "nolib.m" use u : x'},
    ]
    # two projects: the files a relative GlobalRepo pattern reaches depend on the project root of *this* load
    lib["/sim/w3p/alpha/lib/x.m"] = "def weight = 3 def common = 1"
    lib["/sim/w3p/beta/lib/x.m"] = "def height = 4 def common = 2"
    multi_gr = [
        {"kind": "gr-alpha", "path": "/sim/w3p/alpha/main.m", "text": "use u : weight , common", "params": {"project_root": "/sim/w3p/alpha"}},
        {"kind": "gr-beta", "path": "/sim/w3p/beta/main.m", "text": "use u : height , common", "params": {"project_root": "/sim/w3p/beta"}},
        {"kind": "gr-beta-dangling", "path": "/sim/w3p/beta/other.m", "text": "use u : weight", "params": {"project_root": "/sim/w3p/beta"}},
        {"kind": "gr-no-root", "path": "/sim/w3p/alpha/noroot.m", "text": "use u : weight"},
    ]
    return {"cfgs": cfgs, "items": items_inputs, "mods": mods_inputs, "multi": multi, "multi_sp": multi_sp, "lib": lib,
            "multi_gr": multi_gr,
            "shapes": [{"kind": "shapes", "text": x} for x in SHAPES_INPUTS]}


def build_metamodel(cfg, shared=None):
    """shared: a per-history dict; a configuration with `shared_classes` hands the *same* user classes to every
    metamodel built from it in that history (an application that keeps its classes at module level and builds a
    metamodel per request) - the older metamodels have to go on working."""
    kw = {k: cfg[k] for k in ("memoization", "autokwd", "ignore_case", "auto_init_attributes",
                              "textx_tools_support", "use_regexp_group", "skipws")}
    if cfg["ws"] is not None:
        kw["ws"] = cfg["ws"]
    if cfg.get("global_repository"):
        kw["global_repository"] = True
    if cfg["template"] in SHAPES_GRAMMARS:
        return metamodel_from_str(SHAPES_GRAMMARS[cfg["template"]], **kw)
    if cfg["template"] == "mods":
        mm = metamodel_from_str(MODS_GRAMMAR, **kw)
        if cfg["procs"] == "record":
            mm.register_obj_processors({"Word": lambda o: None, "Num": lambda o: None, "INT": lambda x: int(x)})
        return mm
    if cfg.get("shared_classes") and shared is not None:
        classes = shared.setdefault(id(cfg), [make_class(n, v, NullRec()) for n, v in cfg["classes"]])
    else:
        classes = [make_class(n, v, NullRec()) for n, v in cfg["classes"]]
    if classes:
        kw["classes"] = classes
    mm = metamodel_from_str(items_grammar(), **kw)
    prov = cfg["provider"]
    if prov == "fqn":
        mm.register_scope_providers({"*.*": sp.FQN()})
    elif prov == "plain":
        mm.register_scope_providers({"*.*": sp.PlainName()})
    elif prov == "plain-single-mm":
        # the variant that looks names up in the parser's per-load instance table
        mm.register_scope_providers({"*.*": sp.PlainName(multi_metamodel_support=False)})
    elif prov == "rrel":
        mm.register_scope_providers({"*.*": create_rrel_scope_provider("^items*")})
    elif prov == "postpone-once":
        mm.register_scope_providers({"*.*": PostponeOnce(sp.FQN())})
    elif prov == "plainuri":
        mm.register_scope_providers({"*.*": sp.PlainNameImportURI()})
    elif prov == "fqnuri":
        mm.register_scope_providers({"*.*": sp.FQNImportURI()})
    elif prov == "plainuri-sp":
        mm.register_scope_providers({"*.*": sp.PlainNameImportURI(search_path=["/sim/w3sp/shared"])})
    elif prov == "plaingr-rel":
        # a relative pattern: looked up under the project root every load names for itself
        mm.register_scope_providers({"*.*": sp.PlainNameGlobalRepo("lib/*.m")})
    procs = {}
    if cfg["procs"] in ("record", "replace", "boom"):
        procs["Use"] = lambda o: None
        procs["Item"] = lambda o: None
        procs["INT"] = lambda x: int(x)
        procs["Tag"] = lambda x: x.upper()
    if cfg["procs"] == "replace":
        procs["Wrap"] = lambda o: "wrapped:" + o.inner.name
    if cfg["procs"] == "triple":
        # not idempotent: applied once per object it gives 3v+1, applied twice something else
        def triple(o):
            o.v = (o.v or 0) * 3 + 1
        procs["Def"] = triple

        def mark(o):
            o.name = o.name + "!"
        procs["Inner"] = mark  # the Inner of a Wrap: an attribute of a (shared) user class typed with a plain common rule
    if cfg["procs"] == "boom":
        def defproc(o):
            if o.name == "boom":
                raise TextXSemanticError("boom")

        def tagproc(x):
            if x == "#tboom":
                raise TextXSemanticError("tag boom")
            return x.upper()
        procs["Def"] = defproc
        procs["Tag"] = tagproc
    if procs:
        mm.register_obj_processors(procs)
    if cfg.get("model_processor"):
        def bump(model, metamodel):
            for o in getattr(model, "items", None) or []:
                if type(o).__name__ == "Def":
                    try:
                        o.v = (o.v or 0) + 1000
                    except Exception:
                        pass  # a class that rejects assignments
                    break

        mm.register_model_processor(bump)
    return mm


def input_list(cat, cfg):
    if cfg["template"] in SHAPES_GRAMMARS:
        return cat["shapes"]
    if cfg.get("provider") == "plaingr-rel":
        return cat["multi_gr"]
    if cfg.get("provider") == "plainuri-sp":
        return cat["multi_sp"]
    if cfg.get("provider") in ("plainuri", "fqnuri"):
        return cat["multi"]
    return cat["items"] if cfg["template"] == "items" else cat["mods"]


def do_load(mm, text, mode, j, inp=None):
    if inp is not None and "path" in inp:
        # multi-file input: the main file and the libraries live on the virtual file system
        for p, t_ in CAT["lib"].items():
            SIMFS.files[p] = t_
        SIMFS.files[inp["path"]] = text
        params = inp.get("params") or {}
        if mode == "file":
            return mm.model_from_file(inp["path"], **params)
        return mm.model_from_str(text, file_name=inp["path"], **params)
    if mode == "file":
        path = f"/sim/w3/in{j}.m"
        SIMFS.files[path] = text
        return mm.model_from_file(path)
    return mm.model_from_str(text)


def outcome_of(fn):
    try:
        m = fn()
        return {"ok": dump_model(m)}
    except TextXError as e:
        return {"err": dump_error(e)}
    except Exception as e:  # a non-textX exception is an outcome too
        return {"exc": {"type": type(e).__name__, "msg": core_norm(str(e))}}


def core_norm(s):
    from ..dump import norm_msg
    return norm_msg(s)


# --------------------------------------------------------------------------
# prepare: reference outcomes in forked pristine children
# --------------------------------------------------------------------------

CAT = {}
REF = {}


def _ref_run(ctx):
    """Executed in a forked pristine child: one fresh metamodel, one load."""
    i, j, mode = ctx.tape.values[:3]
    mode = "file" if mode else "str"
    cfg = CAT["cfgs"][i]
    inp = input_list(CAT, cfg)[j]
    mm = build_metamodel(cfg)
    out = outcome_of(lambda: do_load(mm, inp["text"], mode, j, inp))
    ctx.sample = out


def _ref_cfg_run(ctx):
    """Executed in a forked pristine child: every (input, mode) of ONE configuration, each on a fresh metamodel after
    the process-global state has been reset.  (Quick tier: one fork per configuration instead of one per outcome -
    fork() is serialised system-wide in this sandbox and takes seconds on a loaded machine.)"""
    i = ctx.tape.values[0]
    cfg = CAT["cfgs"][i]
    outs = {}
    for j, inp in enumerate(input_list(CAT, cfg)):
        for mode in (0, 1):
            core.reset_process_state()
            mm = build_metamodel(cfg)
            outs[f"{j}:{mode}"] = outcome_of(lambda: do_load(mm, inp["text"], "file" if mode else "str", j, inp))
    ctx.sample = outs


def _cache_path(seed):
    """The reference table is input data of the history runs (a pure function of seed, tier and tree).  A helper
    interpreter started by this check (--run-tape, --digests) reads the table its parent computed instead of forking
    several hundred reference processes again."""
    return os.environ.get("TVSIM_C16_REF")


def prepare(seed):
    global CAT, REF
    CAT = gen_catalogue(seed)
    REF = {}
    cp = _cache_path(seed)
    if cp and os.path.exists(cp):
        import json
        with open(cp) as f:
            d = json.load(f)
        if d.get("seed") == seed and d.get("tier") == os.environ.get("VERIF_TIER"):
            REF = {tuple(int(x) for x in k.split(":")): v for k, v in d["ref"].items()}
            return {"configurations": len(CAT["cfgs"]), "reference_outcomes": len(REF), "from_parent": True}
    out = _prepare(seed)
    if not cp:
        import json
        import tempfile
        fd, cp = tempfile.mkstemp(prefix="tvsim-c16-ref-", suffix=".json")
        with os.fdopen(fd, "w") as f:
            json.dump({"seed": seed, "tier": os.environ.get("VERIF_TIER"),
                       "ref": {":".join(map(str, k)): v for k, v in REF.items()}}, f)
        os.environ["TVSIM_C16_REF"] = cp
        import atexit
        atexit.register(lambda: os.path.exists(cp) and os.unlink(cp))
    return out


def _prepare(seed):
    global REF
    triples = [(i, j, mode) for i, cfg in enumerate(CAT["cfgs"]) for j, _ in enumerate(input_list(CAT, cfg))
               for mode in (0, 1)]
    thorough = os.environ.get("VERIF_TIER") == "thorough"
    if thorough:
        pristine = triples
    else:
        for i, cfg in enumerate(CAT["cfgs"]):
            r = core.run_isolated(_ref_cfg_run, "C16", values=[i])
            if r.get("status") != "ok":
                raise RuntimeError(f"reference computation failed for configuration {i}: {r.get('err')}")
            for k, out in r["sample"].items():
                j, mode = k.split(":")
                REF[(i, int(j), int(mode))] = out
        # a sample of the outcomes is recomputed one by one in pristine children: they must agree
        pristine = triples[3::max(1, len(triples) // 24)]
    for (i, j, mode) in pristine:
        r = core.run_isolated(_ref_run, "C16", values=[i, j, mode])
        if r.get("status") != "ok":
            raise RuntimeError(f"reference computation failed for {(i, j, mode)}: {r.get('err')}")
        if not thorough and REF[(i, j, mode)] != r["sample"]:
            raise RuntimeError(f"reference outcome of {(i, j, mode)} differs between a pristine process and the "
                               f"per-configuration reference process: {_short(r['sample'])} vs {_short(REF[(i, j, mode)])}")
        REF[(i, j, mode)] = r["sample"]
    return {"configurations": len(CAT["cfgs"]), "reference_outcomes": len(REF),
            "computed_one_by_one_in_pristine_processes": len(pristine)}


# --------------------------------------------------------------------------
# the run: a history
# --------------------------------------------------------------------------


def run(ctx):
    t = ctx.tape
    if not REF:
        raise RuntimeError("prepare() was not called")
    ncfg = len(CAT["cfgs"])
    pool = [t.draw(ncfg, "pool-cfg") for _ in range(2 + t.draw(3, "pool-size"))]
    for ci_ in list(pool):
        if CAT["cfgs"][ci_].get("shared_classes") and pool.count(ci_) == 1:
            pool.append(ci_)  # two metamodels of this configuration live side by side (and share their classes)
    slots = {}  # slot -> (cfg index, metamodel)
    shared = {}  # user classes shared by all metamodels of a configuration in this history
    nops = 4 + t.draw(21, "nops")
    hist = []
    sigs = []
    for step in range(nops):
        k = t.draw(10, "op")
        slot = t.draw(len(pool), "slot")
        ci = pool[slot]
        cfg = CAT["cfgs"][ci]
        if k == 0:
            # an invalid grammar must fail with a textX error and leave the process usable
            g = t.pick(BAD_GRAMMARS, "bad-grammar")
            try:
                metamodel_from_str(g)
                out = "ok"
            except TextXError:
                out = "textx-error"
            except Exception as e:
                out = "exc:" + type(e).__name__
            ctx.ev("bad-grammar", BAD_GRAMMARS.index(g), out)
            hist.append(["bad-grammar", BAD_GRAMMARS.index(g)])
            ctx.fired("invalid-grammar")
            continue
        if k == 1 or slot not in slots:
            slots[slot] = (ci, build_metamodel(cfg, shared))
            ctx.ev("new-metamodel", slot, ci)
            hist.append(["new-metamodel", slot, ci])
            if k == 1:
                continue
        mm = slots[slot][1]
        inputs = input_list(CAT, cfg)
        j = t.draw(len(inputs), "input")
        mode = 1 if t.chance(1, 3, "from-file") else 0
        earlier = [(h[3], 1 if h[4] == "file" else 0) for h in hist if h[0] == "load" and h[1] == slot and h[2] == ci]
        if earlier and t.chance(1, 3, "repeat-an-earlier-load"):
            # the same input again on the same metamodel (what a cache, a leftover or a stale entry would change)
            j, mode = t.pick(earlier, "which-earlier-load")
            ctx.probe("same-input-loaded-again")
        got = outcome_of(lambda: do_load(mm, inputs[j]["text"], "file" if mode else "str", j, inputs[j]))
        want = REF[(ci, j, mode)]
        oc = "ok" if "ok" in got else ("err:" + got["err"]["type"] if "err" in got else "exc:" + got["exc"]["type"])
        ctx.ev("load", slot, ci, j, mode, oc)
        hist.append(["load", slot, ci, j, "file" if mode else "str", oc])
        sigs.append((ci, j, mode, oc))
        if "err" in got or "exc" in got:
            ctx.probe("failing-load")
        if got != want:
            kind = "model" if ("ok" in got and "ok" in want) else ("error" if ("err" in got and "err" in want) else "verdict")
            ctx.violate("C16", "outcome-differs-from-fresh-process", f"{kind}/{cfg['template']}/{cfg.get('provider')}",
                        f"step {step}: load of input {j} ({inputs[j]['kind']}, {'file' if mode else 'string'}) with "
                        f"configuration {ci} gives {_short(got)}; on a fresh process state it gives {_short(want)}")
            break
    ctx.sample = {"pool": pool, "history": hist}
    ctx.sig = hist
    ctx.stats["steps"] += nops
    live = {s for s in slots}
    ctx.nontrivial = len([h for h in hist if h[0] == "load"]) >= 2 and len({h[2] for h in hist if h[0] == "load"}) >= 1
    if len({h[2] for h in hist if h[0] == "load"}) > 1:
        ctx.probe("interleaved-metamodels")
    ctx.sets["history_signatures"] = [repr(sigs)]
    ctx.sets["load_triples"] = [repr(s) for s in set(sigs)]


def _short(o):
    if "ok" in o:
        import hashlib
        import json
        return "model#" + hashlib.sha256(json.dumps(o["ok"], sort_keys=True, default=str).encode()).hexdigest()[:8]
    if "err" in o:
        e = o["err"]
        return f"{e['type']}({e['msg'][:60]!r} @{e.get('filename')}:{e.get('line')}:{e.get('col')})"
    return f"{o['exc']['type']}({o['exc']['msg'][:60]!r})"


RULES = {
    "C16": "a catalogue of 19 metamodel configurations (2 grammar templates; memoization, autokwd, ignore_case, ws, "
           "auto_init_attributes, tools support, regexp groups, global repository; 9 provider kinds incl. a postponing "
           "one, import providers and a search-path provider; user classes of 6 variants; recording / replacing / raising "
           "processors; 5 configurations are fixed whatever the seed) x 6-14 inputs (valid, syntax error, dangling, "
           "ambiguous, processor error, multi-file) x {string, virtual file} is derived from VERIF_SEED; the reference "
           "outcome of every triple is computed in a forked pristine process (thorough: one process per outcome; quick: "
           "one process per configuration with the global state reset between outcomes, and a sample of 24 recomputed "
           "one by one which must agree); one run = a history of 4-24 operations (new metamodel, invalid grammar, load, "
           "the same load again) interleaved over 2-4 configurations; non-trivial = at least two loads; distinct = distinct "
           "histories; distinct (configuration, input, mode, outcome) triples reached are counted in coverage.distinct_sets",
}
ASSUMPTIONS = {
    "C16": ["debug metamodels are excluded on purpose (debug output is intended history); with a global repository a "
            "cached reload returns the same object, its dump must still equal the fresh-process outcome", "every run starts from reset process-global state (grammar parser cache, registries); a "
            "violation is confirmed by replaying the history in a pristine forked process"],
}
