"""
Command line driver:  ./check <ID> [--tier quick|thorough] [--runs N] [--workers N]
                               [--replay FILE] [--selftest-determinism] [--digests A-B]

Exit codes: 0 held on everything explored, 1 VIOLATION, 2 harness error.
"""

import argparse
import json
import os
import subprocess
import sys
import time
from collections import Counter

from . import core
from .seams import SeamBypassed, boot, repo_root

PROPS = {
    # id: (module, level, quick runs, thorough runs, design ref)
    "C08": ("w1_resolve", "exploration", 3000, 400000, "4/C08"),
    "C09": ("w1_resolve", "exploration", 4000, 400000, "4/C09"),
    "C34": ("w1_resolve", "exploration", 3000, 400000, "4/C34"),
    "C13": ("w2_lifecycle", "exploration", 4000, 300000, "4/C13"),
    "C14": ("w2_lifecycle", "exploration", 3000, 300000, "4/C14"),
    "C15": ("w2_lifecycle", "fault_enumeration", 2500, 12000, "4/C15"),
    "C33": ("w2_lifecycle", "fault_enumeration", 2500, 15000, "4/C33"),
    "C16": ("w3_history", "exploration", 1500, 40000, "4/C16"),
    "C17": ("w4_repo", "exploration", 2000, 200000, "4/C17"),
    "C18": ("w4_repo", "fault_enumeration", 3000, 15000, "4/C18"),
    "C27": ("w4_repo", "exploration", 2000, 200000, "4/C27"),
    "C28": ("w4_repo", "fault_enumeration", 2000, 15000, "4/C28"),
    "C26": ("w5_registry", "exploration", 5000, 1000000, "4/C26"),
    "C31": ("w6_genfile", "fault_enumeration", 300, 20000, "4/C31"),
}

REAL_STUB = {
    "real": ["textx (all modules, from the working tree)", "Arpeggio 2.0.3", "click (CLI paths only)"],
    "stub": ["file system under /sim (SimFS)", "glob result order", "entry-point table",
             "user callbacks (scope providers, processors, model processors)", "user classes",
             "output file object (C31)"],
}


def load_runfn(prop):
    import importlib

    mod = importlib.import_module("tvsim.worlds." + PROPS[prop][0])
    return mod.run, mod


def write_evidence(prop, tier, seed, level, results, cut, wall, extra, nviol):
    stats = Counter()
    sigs = set()
    samples = []
    status = Counter()
    for r in results:
        status[r.get("status")] += 1
        for k, v in (r.get("stats") or {}).items():
            stats[k] += v
        if r.get("nontrivial"):
            sigs.add(r.get("sig"))
        if r.get("sample") is not None and len(samples) < 4 and r.get("nontrivial"):
            samples.append({"run": r["run"], "case": r["sample"]})
    if not samples:
        for r in results:
            if r.get("sample") is not None:
                samples.append({"run": r["run"], "case": r["sample"]})
                break
    n = len(results)
    steps = stats.get("steps", 0)
    united = {}
    for r in results:
        for k, v in (r.get("sets") or {}).items():
            united.setdefault(k, set()).update(v)
    ev = {
        "property_id": prop,
        "tier": tier,
        "seed": seed,
        "level": level,
        "coverage": {
            "evaluations": n,
            "distinct_nontrivial": len(sigs),
            "rule": extra.get("rule", ""),
            "samples": samples,
            "runs_per_hour": int(n / wall * 3600) if wall > 0 else 0,
            "seeds_per_hour": int(n / wall * 3600) if wall > 0 else 0,
            "simulated_time_logical_steps": steps,
            "events_logged": sum(r.get("nevents", 0) for r in results),
            "faults_fired": {k[6:]: v for k, v in sorted(stats.items()) if k.startswith("fault:")},
            "probes": {k[6:]: v for k, v in sorted(stats.items()) if k.startswith("probe:")},
            "counters": {k: v for k, v in sorted(stats.items()) if ":" not in k},
            "distinct_sets": {k: len(v) for k, v in sorted(united.items())},
            "run_status": dict(status),
            "wall_cap_cut_the_batch": bool(cut),
            "components": REAL_STUB,
            "determinism_selfcheck": extra.get("determinism"),
            "prepared": extra.get("prepare"),
            "known_findings_matched": extra.get("known", []),
            "tree": repo_root(),
            "exhaustive": False,
        },
        "assumptions": extra.get("assumptions", []),
        "wall_s": round(wall, 3),
        "violations": nviol,
    }
    d = os.path.join(core.OUT_DIR, "evidence")
    os.makedirs(d, exist_ok=True)
    tmp = os.path.join(d, f".{prop}.json.tmp")
    with open(tmp, "w") as f:
        json.dump(ev, f, indent=1, default=str)
    os.replace(tmp, os.path.join(d, f"{prop}.json"))
    return ev


def digests(prop, runfn, seed, idxs):
    out = {}
    for i in idxs:
        r = core.run_isolated(runfn, prop, seed=core.run_seed(seed, prop, i))
        # a run that ends in a violation is compared by that fact only: what a broken tree does on the way (e.g. how deep
        # an endless recursion gets before Python stops it) may depend on the process, and the violation is confirmed in
        # a fresh interpreter anyway; on a tree without violations every digest is compared
        viol = bool(r.get("violations"))
        out[i] = (r.get("status"), "violation" if viol else
                  (r.get("digest") if r.get("status") == "ok" else str(r.get("err"))[-400:]))
    return out


def determinism_selfcheck(prop, runfn, seed, n=8):
    """n runs: twice here, once in a fresh interpreter under another hash seed."""
    idxs = list(range(n))
    a = digests(prop, runfn, seed, idxs)
    b = digests(prop, runfn, seed, idxs)
    for d in (a, b):
        # a run that did not complete (a child starved on an overloaded machine) is tried once more
        for i in idxs:
            if d[i][0] != "ok":
                d.update(digests(prop, runfn, seed, [i]))
    env = dict(os.environ)
    env["PYTHONHASHSEED"] = "12345" if os.environ.get("PYTHONHASHSEED") != "12345" else "54321"
    env["TVSIM_NO_REEXEC"] = "1"
    env["VERIF_SEED"] = str(seed)
    try:
        p = subprocess.run(
            [os.path.join(core.VERIF_DIR, "check"), prop, "--digests", f"0-{n - 1}"],
            env=env, capture_output=True, text=True, timeout=1500,
        )
    except subprocess.TimeoutExpired:
        return {"ok": False, "why": "fresh interpreter did not finish within 1500 s (machine overloaded?)"}
    c = None
    try:
        c = {int(k): tuple(v) for k, v in json.loads(p.stdout.strip().splitlines()[-1]).items()}
    except Exception:
        return {"ok": False, "why": "fresh interpreter produced no digests: " + p.stderr[-500:]}
    if os.environ.get("TVSIM_DEBUG_DET"):
        print("A", a, file=sys.stderr)
        print("C", c, file=sys.stderr)
    same_proc = all(a[i] == b[i] for i in idxs)
    fresh = all(a[i] == c.get(i) for i in idxs)
    bad_status = [i for i in idxs if a[i][0] != "ok"]
    return {
        "ok": same_proc and fresh and not bad_status,
        "runs": n,
        "same_process_twice": same_proc,
        "fresh_interpreter_other_hashseed": fresh,
        "harness_errors": bad_status,
        "harness_error_detail": [str(a[i]) for i in bad_status][:3],
    }


def main(argv=None):
    """Exit 1 is reserved for a confirmed VIOLATION: any crash of the harness itself is exit 2."""
    try:
        return _main(argv)
    except SystemExit:
        raise
    except BaseException as e:  # noqa
        import traceback

        traceback.print_exc()
        print(f"HARNESS-ERROR {type(e).__name__}: {e}")
        return 2


def _main(argv=None):
    ap = argparse.ArgumentParser(prog="check")
    ap.add_argument("prop")
    ap.add_argument("--tier", default=os.environ.get("VERIF_TIER", "quick"))
    ap.add_argument("--runs", type=int)
    ap.add_argument("--workers", type=int, default=int(os.environ.get("TVSIM_WORKERS", "0")) or (os.cpu_count() or 4))
    ap.add_argument("--replay")
    ap.add_argument("--digests")
    ap.add_argument("--selftest-determinism", action="store_true")
    ap.add_argument("--no-min", action="store_true")
    ap.add_argument("--wall-cap", type=float)
    ap.add_argument("--dump-run", type=int)
    ap.add_argument("--run-tape")
    args = ap.parse_args(argv)
    prop = args.prop
    if prop not in PROPS:
        print(f"unknown property {prop}", file=sys.stderr)
        return 2
    seed = int(os.environ.get("VERIF_SEED", core.DEFAULT_SEED))
    tier = args.tier if args.tier in ("quick", "thorough") else "quick"
    os.environ["VERIF_TIER"] = tier  # worlds may enumerate instead of sample in the thorough tier (inherited by workers)
    try:
        boot()
        runfn, mod = load_runfn(prop)
    except SeamBypassed as e:
        print(f"HARNESS-ERROR seam bypassed: {e}")
        return 2
    level = PROPS[prop][1]
    prep = None
    if hasattr(mod, "prepare"):
        # e.g. C16: reference outcomes computed in forked pristine children, a pure function of the seed
        prep = mod.prepare(seed)

    if args.digests:
        a, b = args.digests.split("-")
        d = digests(prop, runfn, seed, range(int(a), int(b) + 1))
        print(json.dumps({str(k): v for k, v in d.items()}))
        return 0
    if args.run_tape:
        with open(args.run_tape) as f:
            req = json.load(f)
        r = core.run_inproc(runfn, prop, values=req["tape"], keep_events=req.get("keep_events", False))
        print(json.dumps(r, default=str))
        return 0
    if args.dump_run is not None:
        r = core.run_isolated(runfn, prop, seed=core.run_seed(seed, prop, args.dump_run), keep_events=True)
        print(json.dumps(r, indent=1, default=str))
        return 0
    if args.replay:
        code, text = core.replay_file(runfn, prop, args.replay)
        print(text)
        return code
    if args.selftest_determinism:
        n = args.runs or 200
        r = determinism_selfcheck(prop, runfn, seed, n)
        print(json.dumps(r))
        return 0 if r["ok"] else 2

    t0 = time.monotonic()
    det = determinism_selfcheck(prop, runfn, seed, 8)
    if not det["ok"]:
        print(f"HARNESS-ERROR determinism self-check failed: {json.dumps(det)}")
        return 2
    nruns = args.runs or (PROPS[prop][2] if tier == "quick" else PROPS[prop][3])
    nruns = int(nruns * getattr(mod, "RUN_SCALE", {}).get(prop, 1.0)) or 1
    wall_cap = args.wall_cap or (240 if tier == "quick" else 3600)
    results, cut = core.run_batch(runfn, prop, seed, nruns, args.workers, wall_cap=wall_cap)

    # harness-level failures
    bad = [r for r in results if r.get("status") != "ok"]
    known = core.load_known_findings()
    findings = known.get("findings", [])
    classes = {}
    other_props = Counter()
    for r in results:
        for v in r.get("violations", []):
            if v["property"] != prop:
                other_props[v["property"] + "/" + v["clause"]] += 1
                continue
            classes.setdefault(core.vclass(v), []).append((r["run"], r, v))
    matched = {}
    unknown = {}
    for cls, occ in sorted(classes.items()):
        k = core.match_finding(occ[0][2], findings)
        if k is not None:
            matched.setdefault(json.dumps(k, sort_keys=True), (k, []))[1].append((cls, len(occ)))
        else:
            unknown[cls] = occ
    exit_code = 0
    for _, (k, occs) in sorted(matched.items()):
        print(f"KNOWN-FINDING: property={prop} {k['what']}  (seen {sum(n for _, n in occs)}x this run)")
    nviol = sum(len(o) for o in unknown.values())
    # ---- confirmation in a fresh interpreter (the same path --replay takes)
    confirmed = {}
    if unknown:
        order = sorted(unknown.items())
        cands = []
        for cls, occ in order[:8]:
            for run_i, r, v in sorted(occ, key=lambda x: len(x[1].get("tape", [])))[:4]:
                cands.append((run_i, r))
        confirmed = core.confirm_candidates(prop, seed, cands, set(unknown))
        if not confirmed:
            # e.g. a violation that needs CPython to recycle an object id: try every violating run of the batch
            tried = {c[0] for c in cands}
            more = [(run_i, r) for cls, occ in order for run_i, r, v in occ if run_i not in tried][:400]
            confirmed = core.confirm_candidates(prop, seed, more, None, budget_s=400.0)
    if unknown and not confirmed:
        # Nothing of the batch reproduces on pristine state: the tree under test may keep process-global state that
        # reset_process_state() does not know (so that runs of one worker contaminate each other).  Sweep the first
        # runs of the batch again, each in a forked child of this still pristine process, and confirm what they show.
        iso = []
        t_iso = time.monotonic()
        for i in range(min(nruns, 400)):
            if time.monotonic() - t_iso > 240:
                break
            r = core.run_isolated(runfn, prop, seed=core.run_seed(seed, prop, i))
            if r.get("status") == "ok" and any(v["property"] == prop for v in r.get("violations", [])):
                r["run"] = i
                iso.append((i, r))
                if len(iso) >= 12:
                    break
        if iso:
            print(f"note: the in-process batch did not reproduce on pristine state; {len(iso)} violating run(s) found by "
                  f"re-running the first runs in pristine forked processes")
            confirmed = core.confirm_candidates(prop, seed, iso, None, budget_s=400.0)
            for cls, (run_i, tape, fres) in confirmed.items():
                unknown.setdefault(cls, [])
    unconfirmed = [cls for cls in sorted(unknown) if cls not in confirmed]
    shown = 0
    for cls, (run_i, tape, fres) in sorted(confirmed.items()):
        if shown >= 5:
            break
        shown += 1
        occ = unknown.get(cls, [])
        if not args.no_min:
            small = core.minimise(runfn, prop, tape, cls)
            if small != tape:
                chk = core.run_fresh(prop, small, seed, keep_events=True)
                if chk.get("status") == "ok" and any(core.vclass(x) == cls for x in chk.get("violations", [])):
                    tape, fres = small, chk
        path = core.write_replay(prop, seed, run_i, tape, cls, fres)
        v = next(x for x in fres["violations"] if core.vclass(x) == cls)
        print(f"VIOLATION property={prop} replay={path}")
        print(f"  clause={cls[1]} class={cls[2]} occurrences={len(occ)} run={run_i}")
        print(f"  {v['msg']}")
        exit_code = 1
    if confirmed and unconfirmed:
        print(f"note: {len(unconfirmed)} further violation class(es) of the batch were not re-confirmed one by one: "
              f"{unconfirmed[:6]}")
    if unknown and not confirmed:
        for cls in unconfirmed[:5]:
            print(f"HARNESS-ERROR violation class {cls} seen in the batch did not reproduce in a fresh interpreter "
                  f"(the run depends on what the worker process did before; see C16)")
        exit_code = 2
    if len(confirmed) > 5:
        print(f"  ... and {len(confirmed) - 5} more confirmed violation classes: {sorted(confirmed)[5:15]}")
    wall = time.monotonic() - t0
    extra = {
        "rule": getattr(mod, "RULES", {}).get(prop, ""),
        "assumptions": getattr(mod, "ASSUMPTIONS", {}).get(prop, []),
        "determinism": det,
        "prepare": prep,
        "known": [k["what"] for _, (k, _) in sorted(matched.items())],
    }
    ev = write_evidence(prop, tier, seed, level, results, cut, wall, extra, nviol)
    if other_props:
        print(f"note: violations of other properties observed in this world (not gated here): {dict(other_props)}")
    if bad:
        b0 = bad[0]
        print(f"HARNESS-ERROR {len(bad)} run(s) did not complete: run {b0.get('run')} {b0.get('status')}: "
              f"{(b0.get('err') or '')[-1500:]}")
        return 2 if exit_code == 0 else exit_code
    cov = ev["coverage"]
    print(f"{prop} {tier}: runs={cov['evaluations']} distinct_nontrivial={cov['distinct_nontrivial']} "
          f"violations={nviol} known={len(matched)} wall={wall:.1f}s faults={cov['faults_fired']} probes={cov['probes']}")
    if cov["distinct_nontrivial"] < 2 and exit_code == 0:
        print("HARNESS-ERROR fewer than 2 distinct non-trivial runs: the workload does not reach the property")
        return 2
    return exit_code


if __name__ == "__main__":
    sys.exit(main())
