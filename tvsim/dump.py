"""Structural dumps of textX models and errors (used by metamorphic oracles)."""

import os
import re


def _is_obj(o):
    return hasattr(type(o), "_tx_attrs") and not isinstance(o, type)


def index_models(models):
    """id(obj) -> 'file#path' for every object of the given models."""
    idx = {}

    def rec(o, where):
        if id(o) in idx:
            return
        idx[id(o)] = where
        for name, attr in type(o)._tx_attrs.items():
            if not attr.cont:
                continue
            try:
                v = getattr(o, name)
            except AttributeError:
                continue
            if isinstance(v, list):
                for i, c in enumerate(v):
                    if _is_obj(c):
                        rec(c, f"{where}/{name}[{i}]")
            elif _is_obj(v):
                rec(v, f"{where}/{name}")

    for m in models:
        if _is_obj(m):
            fn = getattr(m, "_tx_filename", None)
            rec(m, os.path.basename(fn) if fn else "<str>")
    return idx


def dump_model(model, models=None, positions=True, reflists_as_sets=False):
    """Nested lists/dicts of primitives describing `model`."""
    if not _is_obj(model):
        return ["prim", repr(model)]
    if models is None:
        models = [model]
        rep = getattr(model, "_tx_model_repository", None)
        if rep is not None:
            for m in rep.all_models:
                if m is not model:
                    models.append(m)
    idx = index_models(models)

    def ref(o):
        if o is None:
            return None
        if id(o) in idx:
            return "->" + idx[id(o)]
        if _is_obj(o):
            return "->?" + type(o).__name__ + ":" + str(getattr(o, "name", None))
        return "->py:" + type(o).__name__

    def rec(o):
        d = {"cls": type(o).__name__}
        if positions:
            d["pos"] = [getattr(o, "_tx_position", None), getattr(o, "_tx_position_end", None)]
        attrs = []
        for name, attr in type(o)._tx_attrs.items():
            try:
                v = getattr(o, name)
            except AttributeError:
                attrs.append([name, "<missing>"])
                continue
            if attr.cont:
                if isinstance(v, list):
                    attrs.append([name, [rec(c) if _is_obj(c) else ["prim", repr(c)] for c in v]])
                elif _is_obj(v):
                    attrs.append([name, rec(v)])
                else:
                    attrs.append([name, ["prim", repr(v)]])
            else:
                if isinstance(v, list):
                    lst = [ref(c) for c in v]
                    if reflists_as_sets:
                        lst = sorted(map(str, lst))
                    attrs.append([name, lst])
                else:
                    attrs.append([name, ref(v)])
        d["attrs"] = attrs
        return d

    return rec(model)


_HEX = re.compile(r"0x[0-9a-fA-F]+")
_ID = re.compile(r" at \d{6,}")


def norm_msg(s):
    return _ID.sub(" at N", _HEX.sub("0xX", str(s)))


def dump_error(e):
    d = {"type": type(e).__name__, "msg": norm_msg(getattr(e, "message", None) or str(e))}
    for k in ("line", "col", "nchar", "filename", "err_type"):
        if hasattr(e, k):
            d[k] = getattr(e, k)
    return d
