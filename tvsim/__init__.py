"""tvsim - deterministic simulation with fault injection for textX (see /verif/DESIGN.md)."""
