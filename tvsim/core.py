"""
tvsim core: choice tape, event log, forked isolated runs, batch runner,
tape minimiser, replay files, known findings, evidence (DESIGN.md section 2).
"""

import faulthandler
import hashlib
import json
import os
import random
import select
import signal
import sys
import time
import traceback
from collections import Counter

MASK = (1 << 64) - 1
DEFAULT_SEED = 20260921
VERIF_DIR = os.path.dirname(os.path.dirname(os.path.abspath(__file__)))
TAPE_CAP = 4096
# evidence/ and replays/ go here (a scratch dir for mutant runs, so that they never touch the committed evidence)
OUT_DIR = os.environ.get("TVSIM_OUT", VERIF_DIR)


def splitmix64(x):
    x = (x + 0x9E3779B97F4A7C15) & MASK
    z = x
    z = ((z ^ (z >> 30)) * 0xBF58476D1CE4E5B9) & MASK
    z = ((z ^ (z >> 27)) * 0x94D049BB133111EB) & MASK
    return z ^ (z >> 31)


def fnv1a(s):
    h = 0xCBF29CE484222325
    for b in s.encode():
        h ^= b
        h = (h * 0x100000001B3) & MASK
    return h


def run_seed(seed, prop, i):
    return splitmix64(splitmix64((seed & MASK) ^ fnv1a(prop)) ^ (i & MASK))


class TapeExhausted(Exception):
    pass


class Tape:
    """Every decision of a run is a ``draw``.  Value 0 is the benign choice."""

    def __init__(self, seed=None, values=None):
        self.replay = values is not None
        self.values = list(values) if values is not None else []
        self.pos = 0
        self.rng = random.Random(seed) if not self.replay else None
        self.rec = []  # recorded values (effective)
        self.labels = []

    def draw(self, n, label=""):
        if n <= 1:
            return 0
        if len(self.rec) >= TAPE_CAP:
            v = 0
        elif self.replay:
            v = self.values[self.pos] % n if self.pos < len(self.values) else 0
            self.pos += 1
        else:
            v = self.rng.randrange(n)
        self.rec.append(v)
        self.labels.append(label)
        return v

    def chance(self, num, den, label=""):
        """True with probability num/den; value 0 -> False."""
        return self.draw(den, label) >= den - num

    def pick(self, seq, label=""):
        return seq[self.draw(len(seq), label)]

    def perm(self, n, label=""):
        """Permutation of range(n); all-zero draws give the identity."""
        idx = list(range(n))
        out = []
        while idx:
            out.append(idx.pop(self.draw(len(idx), label)))
        return out

    def subset(self, seq, num, den, label=""):
        return [x for x in seq if self.chance(num, den, label)]


class Budget(BaseException):
    """Raised by scripted callbacks when a logical budget is exceeded (so that
    no ``except Exception`` inside the system under test can swallow it)."""


class Ctx:
    """Per-run context handed to a world."""

    def __init__(self, prop, tape):
        self.prop = prop
        self.tape = tape
        self.events = []
        self.stats = Counter()
        self.violations = []
        self.sig = []  # pieces of the run signature (distinctness)
        self.nontrivial = False
        self.sample = None
        self.notes = []
        self.sets = {}  # name -> list of hashable reprs, united over the batch (coverage.distinct_sets)

    def ev(self, *rec):
        self.events.append(rec)

    def fired(self, kind, n=1):
        self.stats["fault:" + kind] += n

    def probe(self, name, n=1):
        self.stats["probe:" + name] += n

    def violate(self, prop, clause, cls, msg):
        self.violations.append({"property": prop, "clause": clause, "cls": cls, "msg": msg})
        self.ev("VIOLATION", prop, clause, cls)

    def digest(self):
        return hashlib.sha256(json.dumps(self.events, sort_keys=True, default=str).encode()).hexdigest()


def sig_hash(parts):
    return hashlib.sha256(json.dumps(parts, sort_keys=True, default=str).encode()).hexdigest()[:16]


# --------------------------------------------------------------------------
# isolated execution
# --------------------------------------------------------------------------

RUN_WALL_LIMIT = float(os.environ.get("TVSIM_RUN_WALL", "120"))


def _child_main(wfd, runfn, prop, tape, keep_events):
    res = {}
    try:
        faulthandler.enable()
        faulthandler.dump_traceback_later(RUN_WALL_LIMIT - 2, exit=True)
        ctx = Ctx(prop, tape)
        try:
            runfn(ctx)
            status = "ok"
            err = None
        except Budget as e:  # an unhandled budget is a harness problem
            status = "harness"
            err = "Budget escaped: " + repr(e)
        except BaseException:
            status = "harness"
            err = traceback.format_exc()
        res = {
            "status": status,
            "err": err,
            "tape": tape.rec,
            "violations": ctx.violations,
            "digest": ctx.digest(),
            "stats": dict(ctx.stats),
            "sig": sig_hash(ctx.sig),
            "nontrivial": bool(ctx.nontrivial),
            "sample": ctx.sample,
            "nevents": len(ctx.events),
            "notes": ctx.notes,
            "sets": ctx.sets,
        }
        if keep_events:
            res["events"] = ctx.events
            res["labels"] = tape.labels
    except BaseException:
        res = {"status": "harness", "err": traceback.format_exc()}
    try:
        data = json.dumps(res, default=str).encode()
        off = 0
        while off < len(data):
            off += os.write(wfd, data[off : off + 65536])
    finally:
        os._exit(0)


def run_isolated(runfn, prop, seed=None, values=None, keep_events=False):
    """Execute one run in a forked child of the (pristine) current process."""
    tape = Tape(seed=seed, values=values)
    rfd, wfd = os.pipe()
    sys.stdout.flush()
    sys.stderr.flush()
    pid = os.fork()
    if pid == 0:
        os.close(rfd)
        _child_main(wfd, runfn, prop, tape, keep_events)
        os._exit(0)
    os.close(wfd)
    chunks = []
    deadline = time.monotonic() + RUN_WALL_LIMIT
    timed_out = False
    while True:
        left = deadline - time.monotonic()
        if left <= 0:
            timed_out = True
            break
        r, _, _ = select.select([rfd], [], [], min(left, 1.0))
        if r:
            b = os.read(rfd, 1 << 20)
            if not b:
                break
            chunks.append(b)
    os.close(rfd)
    if timed_out:
        try:
            os.kill(pid, signal.SIGKILL)
        except ProcessLookupError:
            pass
    _, st = os.waitpid(pid, 0)
    if timed_out:
        return {"status": "timeout", "err": f"run exceeded {RUN_WALL_LIMIT}s", "violations": []}
    raw = b"".join(chunks)
    if not raw:
        return {"status": "crash", "err": f"child died, wait status {st}", "violations": []}
    try:
        return json.loads(raw)
    except Exception as e:
        return {"status": "crash", "err": f"bad child output: {e}", "violations": []}


# in-process execution (search phase).  Forking is globally serialised in this
# sandbox (~130 forks/s whatever the core count), so the batch runs many runs
# per worker process and resets the process-global state of textX between
# them; every violation candidate is then confirmed in a forked pristine child
# (run_isolated), which is also what --replay and the minimiser use.


class RunTimeout(BaseException):
    pass


def _alarm(signum, frame):
    raise RunTimeout()


def reset_process_state():
    """Bring the process-global state of textX back to what a fresh
    interpreter has (DESIGN.md 1.2) and reset the simulator's own seams."""
    import textx.lang
    import textx.registration as reg

    from .seams import FILE_HOOK, SIMFS

    textx.lang.textX_parsers.clear()
    reg.languages = None
    reg.generators = None
    reg.metamodels = {}
    SIMFS.reset()
    FILE_HOOK[0] = None
    for fn in RESET_HOOKS:
        fn()


RESET_HOOKS = []


def run_inproc(runfn, prop, seed=None, values=None, keep_events=False):
    tape = Tape(seed=seed, values=values)
    ctx = Ctx(prop, tape)
    reset_process_state()
    old = signal.signal(signal.SIGALRM, _alarm)
    signal.alarm(int(RUN_WALL_LIMIT))
    try:
        try:
            runfn(ctx)
            status, err = "ok", None
        except RunTimeout:
            status, err = "timeout", f"run exceeded {RUN_WALL_LIMIT}s"
        except Budget as e:
            status, err = "harness", "Budget escaped: " + repr(e)
        except BaseException:
            status, err = "harness", traceback.format_exc()
    finally:
        signal.alarm(0)
        signal.signal(signal.SIGALRM, old)
    res = {
        "status": status,
        "err": err,
        "tape": tape.rec,
        "violations": ctx.violations,
        "digest": ctx.digest(),
        "stats": dict(ctx.stats),
        "sig": sig_hash(ctx.sig),
        "nontrivial": bool(ctx.nontrivial),
        "sample": ctx.sample,
        "nevents": len(ctx.events),
        "notes": ctx.notes,
        "sets": ctx.sets,
    }
    if keep_events:
        res["events"] = ctx.events
        res["labels"] = tape.labels
    return json.loads(json.dumps(res, default=str))


_WORK = {}


def _run_chunk(args):
    import gc

    prop, seed, start, end = args
    runfn = _WORK["runfn"]
    out = []
    for i in range(start, end):
        r = run_inproc(runfn, prop, seed=run_seed(seed, prop, i))
        r["run"] = i
        # keep IPC small: samples only from a few runs
        if i % 97 != 0 and not r.get("violations"):
            r.pop("sample", None)
        if not r.get("violations") and r.get("status") == "ok":
            r.pop("tape", None)
        out.append(r)
    gc.collect()
    # unite the per-run sets of the chunk (IPC stays small)
    united = {}
    for r in out:
        for k, v in (r.pop("sets", None) or {}).items():
            united.setdefault(k, set()).update(v)
    if out:
        out[0]["sets"] = {k: sorted(v) for k, v in united.items()}
    return out


def run_batch(runfn, prop, seed, nruns, workers, wall_cap=None, progress=False):
    from concurrent.futures import FIRST_COMPLETED, ProcessPoolExecutor, wait
    import multiprocessing as mp

    _WORK["runfn"] = runfn
    chunk = max(1, min(100, nruns // (workers * 4) or 1))
    tasks = [(prop, seed, s, min(nruns, s + chunk)) for s in range(0, nruns, chunk)]
    results = {}
    t0 = time.monotonic()
    cut = False
    ctx = mp.get_context("fork")
    # max_tasks_per_child is not available with fork; workers are long-lived
    with ProcessPoolExecutor(max_workers=max(1, workers), mp_context=ctx) as ex:
        it = iter(tasks)
        pending = set()
        for _ in range(max(1, workers) * 2):
            t = next(it, None)
            if t is None:
                break
            pending.add(ex.submit(_run_chunk, t))
        while pending:
            done, pending = wait(pending, return_when=FIRST_COMPLETED)
            for f in done:
                for r in f.result():
                    results[r["run"]] = r
                if wall_cap and time.monotonic() - t0 > wall_cap:
                    cut = True
                if not cut:
                    t = next(it, None)
                    if t is not None:
                        pending.add(ex.submit(_run_chunk, t))
    ordered = [results[i] for i in sorted(results)]
    return ordered, cut


def run_fresh(prop, tape_values, seed, keep_events=False, timeout=1500):
    """Execute a tape in-process in a *fresh interpreter* (./check PROP --run-tape FILE).  This is the reference
    notion of "a pristine process": confirmation of batch candidates, the final verification of a minimised tape
    and --replay all go through this one path, so a replay reproduces exactly what was confirmed - also for
    violations that depend on CPython recycling object ids (allocator state)."""
    import subprocess
    import tempfile

    fd, path = tempfile.mkstemp(prefix="tvsim-tape-", suffix=".json")
    try:
        with os.fdopen(fd, "w") as f:
            json.dump({"tape": list(tape_values), "keep_events": bool(keep_events)}, f)
        env = dict(os.environ, VERIF_SEED=str(seed), TVSIM_NO_REEXEC="1")
        try:
            p = subprocess.run([os.path.join(VERIF_DIR, "check"), prop, "--run-tape", path], env=env,
                               capture_output=True, text=True, timeout=timeout)
        except subprocess.TimeoutExpired:
            return {"status": "timeout", "err": f"fresh interpreter did not finish within {timeout} s", "violations": []}
        try:
            return json.loads(p.stdout.strip().splitlines()[-1])
        except Exception:
            return {"status": "crash", "err": "fresh interpreter gave no result: " + (p.stderr or p.stdout)[-800:],
                    "violations": []}
    finally:
        try:
            os.unlink(path)
        except OSError:
            pass


def confirm_candidates(prop, seed, cands, want_classes, jobs=8, budget_s=400.0):
    """cands: list of (run, result-with-tape).  Returns {class: (run, tape, fresh_result)} for every class of
    `want_classes` (or any class of `prop` when want_classes is None) that reproduces in a fresh interpreter."""
    from concurrent.futures import ThreadPoolExecutor

    found = {}
    t0 = time.monotonic()

    def one(c):
        if time.monotonic() - t0 > budget_s:
            return c, None
        return c, run_fresh(prop, c[1]["tape"], seed)

    with ThreadPoolExecutor(jobs) as ex:
        for c, res in ex.map(one, cands):
            if not res or res.get("status") != "ok":
                continue
            for v in res.get("violations", []):
                k = vclass(v)
                if v["property"] != prop or (want_classes is not None and k not in want_classes):
                    continue
                if k not in found:
                    found[k] = (c[0], c[1]["tape"], res)
    return found


# --------------------------------------------------------------------------
# violation classes, known findings, minimisation, replay files
# --------------------------------------------------------------------------


def vclass(v):
    return (v["property"], v["clause"], v["cls"])


def load_known_findings():
    p = os.path.join(VERIF_DIR, "known_findings.json")
    if not os.path.exists(p):
        return {"findings": [], "fixed": []}
    with open(p) as f:
        return json.load(f)


def match_finding(v, findings):
    import re

    for k in findings:
        if k["property"] != v["property"] or k["clause"] != v["clause"]:
            continue
        if re.fullmatch(k.get("context", ".*"), v["cls"]):
            return k
    return None


def _same_class(res, target):
    return any(vclass(v) == target for v in res.get("violations", []))


def minimise(runfn, prop, tape_values, target, budget_s=30.0, max_cand=400):
    """Shrink a tape while a violation of class ``target`` persists."""
    best = list(tape_values)
    t0 = time.monotonic()
    tried = [0]

    def ok(cand):
        if tried[0] >= max_cand or time.monotonic() - t0 > budget_s:
            return None
        tried[0] += 1
        r = run_isolated(runfn, prop, values=cand)
        if r.get("status") == "ok" and _same_class(r, target):
            return r
        return False

    def strip(vals):
        while vals and vals[-1] == 0:
            vals = vals[:-1]
        return vals

    best = strip(best)
    # 1. truncate by halves (tail becomes zeros == benign)
    n = len(best)
    cut = n // 2
    while cut >= 1:
        cand = strip(best[: len(best) - cut])
        r = ok(cand) if len(cand) < len(best) else False
        if r is None:
            return best
        if r:
            best = cand
            cut = min(cut, len(best) // 2 or 0)
            if cut == 0:
                break
        else:
            cut //= 2
    # 2. delete aligned chunks
    size = max(1, len(best) // 4)
    while size >= 1:
        i = 0
        while i < len(best):
            cand = strip(best[:i] + best[i + size :])
            r = ok(cand)
            if r is None:
                return best
            if r:
                best = cand
            else:
                i += size
        size //= 2
    # 3. zero blocks, then single entries
    size = max(1, len(best) // 4)
    while size >= 1:
        i = 0
        while i < len(best):
            if any(best[i : i + size]):
                cand = strip(best[:i] + [0] * len(best[i : i + size]) + best[i + size :])
                r = ok(cand)
                if r is None:
                    return best
                if r:
                    best = cand
            i += size
        size //= 2
    # 4. decrement entries
    for i in range(len(best)):
        while i < len(best) and best[i] > 0:
            cand = strip(best[:i] + [best[i] - 1] + best[i + 1 :])
            r = ok(cand)
            if r is None:
                return best
            if r:
                best = cand
            else:
                break
    return best


def write_replay(prop, seed, run, tape_values, target, fresh_result=None):
    r = fresh_result if fresh_result is not None and "events" in fresh_result else \
        run_fresh(prop, tape_values, seed, keep_events=True)
    v = next((x for x in r.get("violations", []) if vclass(x) == target), None)
    d = os.path.join(OUT_DIR, "replays")
    os.makedirs(d, exist_ok=True)
    tag = sig_hash([target, tape_values])[:8]
    path = os.path.join(d, f"{prop}-{seed}-{run}-{tag}.json")
    doc = {
        "property": prop,
        "clause": target[1],
        "cls": target[2],
        "seed": seed,
        "run": run,
        "tape": r.get("tape", tape_values),
        "labels": r.get("labels"),
        "world": r.get("sample"),
        "events": r.get("events"),
        "digest": r.get("digest"),
        "expect": {"clause": target[1], "cls": target[2], "message": v["msg"] if v else None},
        "tier": os.environ.get("VERIF_TIER", "quick"),
        "how_to_replay": f"VERIF_SEED={seed} ./check {prop} --replay <this file>   (fresh interpreter, tape executed in-process)",
    }
    with open(path, "w") as f:
        json.dump(doc, f, indent=1, default=str)
    return path


def replay_file(runfn, prop, path):
    """Re-execute a replay file in this (fresh) interpreter; returns (exit_code, text)."""
    with open(path) as f:
        doc = json.load(f)
    if doc["property"] != prop:
        return 2, f"replay file is for {doc['property']}, not {prop}"
    os.environ["VERIF_TIER"] = doc.get("tier", "quick")  # the thorough tier enumerates where the quick tier samples
    r = run_inproc(runfn, prop, values=doc["tape"], keep_events=True)
    if r.get("status") != "ok":
        return 2, f"harness error during replay: {r.get('err')}"
    target = (doc["property"], doc["expect"]["clause"], doc["expect"]["cls"])
    hit = _same_class(r, target)
    same_digest = r.get("digest") == doc.get("digest")
    lines = []
    for v in r["violations"]:
        lines.append(f"  {v['property']}/{v['clause']} [{v['cls']}] {v['msg']}")
    if hit and same_digest:
        return 1, (
            f"VIOLATION property={prop} replay={path}\nreproduced clause={target[1]} digest={r['digest'][:16]}\n"
            + "\n".join(lines)
        )
    if hit:
        return 1, (
            f"VIOLATION property={prop} replay={path}\nreproduced clause={target[1]}, but the event-log digest differs "
            f"from the recorded one (the tree under test changed since recording, or the violation depends on allocator state such as recycled object ids)\n" + "\n".join(lines)
        )
    if not r["violations"]:
        return 0, f"replay of {path}: no violation on this tree (digest {'same' if same_digest else 'differs'})"
    return 2, "replay diverged: a different violation class\n" + "\n".join(lines)
