"""
Seams owned by the simulator (DESIGN.md 1.1).

* SimFS: an in-memory file system served under the virtual root ``/sim``.
  ``builtins.open``, ``io.open``, ``os.path.exists/isfile/isdir`` and
  ``glob.glob/iglob`` are replaced by prefix-dispatching shims: a path under
  ``/sim`` is answered from SimFS, every other path goes to the real function.
  The shims are installed *before* textx is imported, because
  ``textx.scoping`` binds ``exists`` by from-import.
* boot(): import textx from the repository under test, check that no textx
  module holds an unshimmed file-system function.
"""

import builtins
import errno
import fnmatch
import glob as _glob_mod
import io
import os
import os.path
import re
import sys

VROOT = "/sim"

_real = {}


def _is_virtual(path):
    try:
        p = os.fspath(path)
    except TypeError:
        return False
    if isinstance(p, bytes):
        try:
            p = p.decode()
        except Exception:
            return False
    return p == VROOT or p.startswith(VROOT + "/")


class SimFS:
    """In-memory files. Every access is reported to ``self.listener`` (a
    callable ``(kind, path, extra)``) which may raise to inject a fault."""

    def __init__(self):
        self.files = {}
        self.listener = None
        self.glob_order = None  # callable(list)->list, owned by the scheduler
        self.aliases = []  # (link spelling, real spelling) of a directory: two names for the same files
        self.stored_encoding = None  # the files of this run are stored in this encoding (None: plain text)

    def reset(self):
        self.files = {}
        self.listener = None
        self.glob_order = None
        self.aliases = []
        self.stored_encoding = None

    # -- a symlinked directory: files are stored under the link spelling (the one the worlds use); the "real"
    # spelling reaches the same files, and os.path.realpath() turns the link spelling into the real one
    def canon(self, path):
        if path is None:
            return None
        p = self.norm(path)
        for link, real in self.aliases:
            if p == real or p.startswith(real + "/"):
                return link + p[len(real):]
        return p

    def realpath(self, path):
        p = self.norm(path)
        for link, real in self.aliases:
            if p == link or p.startswith(link + "/"):
                return real + p[len(link):]
        return p

    # -- helpers
    @staticmethod
    def norm(path):
        return os.path.normpath(os.fspath(path))

    def dirs(self):
        ds = {VROOT}
        for f in self.files:
            d = os.path.dirname(f)
            while d and d != "/" and d not in ds:
                ds.add(d)
                d = os.path.dirname(d)
        return ds

    def _note(self, kind, path, extra=None):
        if self.listener is not None:
            self.listener(kind, path, extra)

    # -- API used by shims
    def open(self, path, mode="r", *args, **kwargs):
        p = self.canon(path)
        if "w" in mode or "a" in mode or "+" in mode or "x" in mode:
            raise OSError(errno.EROFS, "SimFS is read-only for the system under test", p)
        self._note("open", p)
        if p not in self.files:
            raise FileNotFoundError(errno.ENOENT, os.strerror(errno.ENOENT), p)
        data = self.files[p]
        if "b" in mode:
            if isinstance(data, str):
                data = data.encode(kwargs.get("encoding") or "utf-8")
            return io.BytesIO(data)
        if isinstance(data, bytes):
            data = data.decode(kwargs.get("encoding") or "utf-8")
        elif self.stored_encoding:
            # the bytes on "disk" are `stored_encoding`; the reader gets them through the encoding it asked for
            data = data.encode(self.stored_encoding).decode(kwargs.get("encoding") or "utf-8")
        if kwargs.get("newline", None) is None and "\r" in data:
            # text mode with universal newlines (the default of open()): "\r\n" and "\r" arrive as "\n"
            data = data.replace("\r\n", "\n").replace("\r", "\n")
        f = io.StringIO(data)
        f.name = p
        return f

    def exists(self, path):
        p = self.canon(path)
        r = p in self.files or p in self.dirs()
        self._note("exists", p, r)
        return r

    def isfile(self, path):
        p = self.canon(path)
        return p in self.files

    def isdir(self, path):
        p = self.canon(path)
        return p in self.dirs()

    def glob(self, pattern, recursive=False, **kw):
        pat = os.fspath(pattern)
        cpat = self.canon(pat)
        res = self._glob(cpat, recursive)
        if cpat != self.norm(pat):
            # asked through the real spelling: answer in the real spelling
            res = {self.realpath(r) for r in res}
        res = sorted(res)
        if self.glob_order is not None and len(res) > 1:
            res = self.glob_order(res)
        self._note("glob", pat, list(res))
        return res

    def _glob(self, pat, recursive):
        pat = os.path.normpath(pat)
        parts = pat.split("/")[1:]  # leading '' dropped
        everything = set(self.files) | self.dirs()
        cur = {"/"}
        for i, part in enumerate(parts):
            last = i == len(parts) - 1
            nxt = set()
            if part == "**" and recursive:
                # zero or more directories
                for c in cur:
                    nxt.add(c)
                    pref = c if c.endswith("/") else c + "/"
                    for e in everything:
                        if e.startswith(pref) and (e in self.dirs() or last):
                            # hidden path components are not matched by **
                            rest = e[len(pref):].split("/")
                            if any(x.startswith(".") for x in rest):
                                continue
                            nxt.add(e)
                cur = nxt
                continue
            magic = any(ch in part for ch in "*?[")
            for c in cur:
                pref = c if c.endswith("/") else c + "/"
                if not magic:
                    cand = pref + part
                    if cand in everything:
                        nxt.add(cand)
                else:
                    rx = re.compile(fnmatch.translate(part))
                    for e in everything:
                        if not e.startswith(pref):
                            continue
                        rest = e[len(pref):]
                        if "/" in rest or not rest:
                            continue
                        if rest.startswith(".") and not part.startswith("."):
                            continue
                        if rx.match(rest):
                            nxt.add(e)
            cur = nxt
        cur.discard("/")
        return cur


SIMFS = SimFS()


def _shim_open(file, mode="r", *args, **kwargs):
    if not isinstance(file, int) and _is_virtual(file):
        return SIMFS.open(file, mode, *args, **kwargs)
    hook = FILE_HOOK[0]
    if hook is not None and not isinstance(file, int):
        return hook(_real["open"], file, mode, *args, **kwargs)
    return _real["open"](file, mode, *args, **kwargs)


def _shim_exists(path):
    if _is_virtual(path):
        return SIMFS.exists(path)
    return _real["exists"](path)


def _shim_isfile(path):
    if _is_virtual(path):
        return SIMFS.isfile(path)
    return _real["isfile"](path)


def _shim_isdir(path):
    if _is_virtual(path):
        return SIMFS.isdir(path)
    return _real["isdir"](path)


def _shim_realpath(path, *args, **kwargs):
    if _is_virtual(path):
        return SIMFS.realpath(path)
    return _real["realpath"](path, *args, **kwargs)


def _shim_glob(pathname, *args, **kwargs):
    if _is_virtual(pathname):
        kwargs.pop("root_dir", None)
        kwargs.pop("dir_fd", None)
        kwargs.pop("include_hidden", None)
        return SIMFS.glob(pathname, **kwargs)
    return _real["glob"](pathname, *args, **kwargs)


def _shim_iglob(pathname, *args, **kwargs):
    if _is_virtual(pathname):
        return iter(_shim_glob(pathname, *args, **kwargs))
    return _real["iglob"](pathname, *args, **kwargs)


# hook for real (non-virtual) opens: used by the generated-file world (C31) to
# wrap the output file object.  FILE_HOOK[0] = callable(real_open, file, mode, ...)
FILE_HOOK = [None]

_SHIMS = {}


def install_shims():
    if _real:
        return
    _real["open"] = builtins.open
    _real["io.open"] = io.open
    _real["exists"] = os.path.exists
    _real["isfile"] = os.path.isfile
    _real["isdir"] = os.path.isdir
    _real["realpath"] = os.path.realpath
    _real["glob"] = _glob_mod.glob
    _real["iglob"] = _glob_mod.iglob
    builtins.open = _shim_open
    io.open = _shim_open
    os.path.exists = _shim_exists
    os.path.isfile = _shim_isfile
    os.path.isdir = _shim_isdir
    os.path.realpath = _shim_realpath
    _glob_mod.glob = _shim_glob
    _glob_mod.iglob = _shim_iglob
    for f in (_shim_open, _shim_exists, _shim_isfile, _shim_isdir, _shim_glob, _shim_iglob, _shim_realpath):
        _SHIMS[id(f)] = f


def real_open(*a, **k):
    return _real["open"](*a, **k)


def real_exists(p):
    return _real["exists"](p)


class SeamBypassed(Exception):
    pass


def repo_root():
    return os.path.abspath(os.environ.get("TVSIM_REPO", "/repo"))


def boot():
    """Install the shims, import textx from the tree under test and verify the
    seam.  Returns the textx module."""
    sys.dont_write_bytecode = True
    install_shims()
    root = repo_root()
    if sys.path[0] != root:
        sys.path.insert(0, root)
    import textx  # noqa

    tf = os.path.abspath(textx.__file__)
    if not tf.startswith(root + os.sep):
        raise SeamBypassed(f"textx imported from {tf}, expected under {root}")
    check_seams()
    return textx


_FS_NAMES = {
    "open": ("open",),
    "exists": ("exists",),
    "isfile": ("isfile",),
    "isdir": ("isdir",),
    "glob": ("glob",),
    "iglob": ("iglob",),
}


def check_seams():
    """Every textx module global that *is* one of the real file-system
    functions (bound by from-import before the shim existed, or imported from a
    module we do not patch) is a bypass."""
    real_funcs = {id(v): k for k, v in _real.items()}
    bad = []
    for name, mod in sorted(sys.modules.items()):
        if not (name == "textx" or name.startswith("textx.")) or mod is None:
            continue
        for gname, gval in sorted(vars(mod).items()):
            if callable(gval) and id(gval) in real_funcs:
                bad.append(f"{name}.{gname} is the real {real_funcs[id(gval)]}")
            # other os-level primitives that would read the disk behind our back
            if gname in ("listdir", "scandir", "walk", "lstat", "stat", "access", "samefile", "islink", "readlink") \
                    and callable(gval):
                bad.append(f"{name}.{gname} bound by name")
    if bad:
        raise SeamBypassed("; ".join(bad))
