"""
Generator of item worlds: a handful of virtual model files over one small
grammar family, with a name table that is the *oracle's* source of truth
(expected target of every reference, offsets of every token).

Grammar (options switch optional parts on/off, see grammar()):

    Model: imports*=Import items*=Item;
    Import: 'import' importURI=STRING;
    Item: Def | Box | Use | Wrap;
    Def: 'def' name=ID ('=' v=INT)? (tag=Tag)?;
    Box: 'box' name=ID '{' items*=Item '}';
    Use: 'use' name=ID ':' refs+=[Def:QN][','] ('one' one=[Def:QN])? ('opt' opt=[Def:QN])?;
    Wrap: inner=Inner (e?='end')?;
    Inner: 'w' name=ID;
    Tag: /#\\w+/;
    QN: ID('.'ID)*;
"""

import os

from .seams import VROOT


def grammar(rrel=None, params=(), qn="QN"):
    """qn: the name of the match rule of the references (any identifier is a legal rule name, also e.g. `sep`)"""
    ref = f"[Def:{qn}]" if not rrel else f"[Def:{qn}|{rrel}]"
    refc = "[Def:QNC]" if not rrel else f"[Def:QNC|{rrel}]"  # the same names written with '::' (another match rule)
    return f"""
Model: imports*=Import items*=Item;
Import: 'import' importURI=STRING;
Item: Def | Box | Use | Wrap | AltUse | '<' Def '>';
Def: 'def' name=ID ('=' v=INT)? (tag=Tag)?;
Box: 'box' name=ID '{{' items*=Item '}}';
AltUse: 'altuse' name=ID ':' alts+={refc}[','];
Use: 'use' name=ID ':' refs+={ref}[','] ('one' one={ref})? ('opt' opt={ref})? ('alt' alt={refc})? ('also' refs+={ref}[','])? ('more' more+={ref}[','])?;
Wrap: inner=Inner (e?='end')?;
Inner: 'w' name=ID;
Tag: /#\\w+/;
{qn}: ID('.'ID)*;
QNC[split='::']: ID('::'ID)*;
"""


def grammar_files(root="/sim/g"):
    """The same language as grammar(), split over three grammar files with a *transitive* import: main.tx imports
    mid.tx, mid.tx imports deep.tx.  Wrap and Inner live in deep.tx: their classes are not visible by simple name from
    the namespace of main.tx."""
    g = grammar()
    rules = {}
    for block in g.strip().split("\n"):
        name = block.split(":", 1)[0].split("[")[0].strip()
        rules[name] = block
    main = ["import mid"] + [rules[r] for r in ("Model", "Import")]
    mid = ["import deep"] + [rules[r] for r in ("Item", "Def", "Box", "AltUse", "Use", "Tag", "QN", "QNC")]
    deep = [rules[r] for r in ("Wrap", "Inner")]
    return {f"{root}/main.tx": "\n".join(main) + "\n", f"{root}/mid.tx": "\n".join(mid) + "\n",
            f"{root}/deep.tx": "\n".join(deep) + "\n"}


class Ent:
    """A model object the generator knows about."""

    def __init__(self, kind, name, file, parent):
        self.kind = kind  # def box use wrap inner import
        self.name = name
        self.file = file
        self.parent = parent  # Ent or None (top level)
        self.items = []  # box
        self.refs = []  # use: list of Ref (all attrs)
        self.v = None
        self.tag = None
        self.end = False  # wrap
        self.inner = None
        self.uri = None  # import
        self.start = None
        self.stop = None
        self.idx = None  # index in the containing list
        self.pre_tokens = []  # raw tokens injected before this entity (faults)
        self.angled = False  # def: written as `< def name >` (an alternative of the abstract rule with tokens around the rule)
        self.split = None  # use: the reference list continues after the single references ('also' ...) from this index

    def path(self):
        """index path from the model root: ('items', i, 'items', j ...)"""
        p = []
        e = self
        while e is not None:
            if e.kind == "inner":
                p.append("inner")
            elif e.kind == "import":
                p.append(("imports", e.idx))
            else:
                p.append(("items", e.idx))
            e = e.parent
        return tuple(reversed(p))

    def qname(self):
        parts = []
        e = self
        while e is not None:
            if e.kind in ("def", "box"):
                parts.append(e.name)
            e = e.parent
        return ".".join(reversed(parts))

    def sid(self):
        return f"{os.path.basename(self.file)}:{self.kind}:{self.name}"


class Ref:
    def __init__(self, owner, attr, idx, target):
        self.owner = owner
        self.attr = attr  # refs one opt
        self.idx = idx  # index in list for refs
        self.target = target  # Ent (def) or None when dangling
        self.text = None
        self.pos = None
        self.plan = ("now",)
        self.key = None
        self.text_override = None
        self.spacing = None  # how the dots of a qualified name are written (' . ', '.\n', ...)
        self.name = None  # the name textX sees (dots without whitespace)

    def sid(self):
        i = f"[{self.idx}]" if self.idx is not None else ""
        return f"{os.path.basename(self.owner.file)}:{self.owner.name}.{self.attr}{i}"


class FileEnt:
    def __init__(self, path):
        self.path = path
        self.imports = []  # Ent(kind=import)
        self.items = []
        self.text = None
        self.prefix = ""  # leading whitespace/comment
        self.extra = []  # raw (offset-free) token injections, see World.render


class World:
    def __init__(self):
        self.files = {}  # path -> FileEnt (insertion order = creation order)
        self.main = None
        self.defs = []
        self.boxes = []
        self.uses = []
        self.refs = []
        self.qualified = False  # reference text: qualified name (FQN families)
        self.seps = None

    # ---- structure helpers
    def all_ents(self, fe):
        out = []

        def rec(e):
            out.append(e)
            for c in e.items:
                rec(c)
            if e.inner is not None:
                out.append(e.inner)

        for i in fe.imports:
            out.append(i)
        for e in fe.items:
            rec(e)
        return out

    def direct_imports(self, path):
        return [self.resolve_uri(path, i.uri) for i in self.files[path].imports]

    @staticmethod
    def resolve_uri(frm, uri):
        return os.path.normpath(os.path.join(os.path.dirname(frm), uri))

    def closure(self, start=None, stop_at=()):
        """files reachable from start through import edges (BFS order)."""
        start = start or self.main
        seen = [start]
        q = [start]
        while q:
            f = q.pop(0)
            for g in self.direct_imports(f):
                if g in self.files and g not in seen and g not in stop_at:
                    seen.append(g)
                    q.append(g)
        return seen

    def visible_defs(self, path):
        """definitions a reference in `path` may target: own file + direct imports."""
        fs = [path] + [g for g in self.direct_imports(path) if g in self.files]
        # a name this file shadows with a copy of its own is not a way to reach the other file's definition
        own_copies = {s.name for s in getattr(self, "shadow_defs", []) if s.file == path}
        return [d for d in self.defs if d.file in fs and not (d.file != path and d.name in own_copies)] + \
            list(getattr(self, "builtin_ents", []))

    # ---- rendering
    def ref_text(self, ref):
        """Text of a reference as written; ref.name is the name textX sees (a
        qualified name may be written with whitespace around its dots)."""
        if ref.text_override is not None:
            ref.name = ref.text_override
            return ref.text_override
        t = ref.target
        ref.name = t.qname() if self.qualified else t.name
        if ref.attr == "alt":
            ref.name = ref.name.replace(".", "::")
            return ref.name
        if ref.spacing and "." in ref.name:
            return ref.name.replace(".", ref.spacing)
        return ref.name

    def render(self, tape=None):
        """Produce the text of every file and the offsets of every entity.
        Token separators are drawn once (self.seps) and reused afterwards so
        that re-rendering after a fault injection keeps the layout."""
        for fe in self.files.values():
            self._render_file(fe)

    def _render_file(self, fe):
        out = []
        pos = [len(fe.prefix)]
        sepi = [0]
        seps = fe.seps

        def tok(s):
            start = pos[0]
            out.append(s)
            pos[0] += len(s)
            sep = seps[sepi[0] % len(seps)] if seps else " "
            sepi[0] += 1
            out.append(sep)
            pos[0] += len(sep)
            return start, start + len(s)

        fe.tokens = []  # (start, text, role)

        def T(s, role=None):
            a, b = tok(s)
            fe.tokens.append((a, s, role))
            return a, b

        def emit(e):
            for raw in e.pre_tokens:
                T(raw, "injected")
            if e.kind == "import":
                a, _ = T("import")
                _, b = T('"%s"' % e.uri)
                e.start, e.stop = a, b
            elif e.kind == "def":
                if e.angled:
                    T("<")
                a, _ = T("def")
                _, b = T(e.name, "name")
                if e.v is not None:
                    T("=")
                    _, b = T(str(e.v), "int")
                if e.tag is not None:
                    _, b = T(e.tag, "tag")
                e.start, e.stop = a, b  # the object is the Def: its text does not include the angle brackets
                if e.angled:
                    T(">")
            elif e.kind == "box":
                a, _ = T("box")
                T(e.name, "name")
                T("{")
                for c in e.items:
                    emit(c)
                _, b = T("}")
                e.start, e.stop = a, b
            elif e.kind == "use":
                a, _ = T("use")
                T(e.name, "name")
                _, b = T(":")
                lst = [r for r in e.refs if r.attr == "refs"]
                cut = e.split if e.split and 0 < e.split < len(lst) else len(lst)
                for i, r in enumerate(lst[:cut]):
                    if i:
                        T(",")
                    r.text = self.ref_text(r)
                    r.pos, b = T(r.text, "ref")
                for attr in ("one", "opt", "alt"):
                    for r in e.refs:
                        if r.attr == attr:
                            T(attr)
                            r.text = self.ref_text(r)
                            r.pos, b = T(r.text, "ref" if attr != "alt" else "refc")
                if cut < len(lst):
                    # the same list attribute assigned at a second place of the rule, other references in between
                    T("also")
                    for i, r in enumerate(lst[cut:]):
                        if i:
                            T(",")
                        r.text = self.ref_text(r)
                        r.pos, b = T(r.text, "ref")
                more = [r for r in e.refs if r.attr == "more"]
                if more:
                    # a second reference list of the same object
                    T("more")
                    for i, r in enumerate(more):
                        if i:
                            T(",")
                        r.text = self.ref_text(r)
                        r.pos, b = T(r.text, "ref")
                e.start, e.stop = a, b
            elif e.kind == "wrap":
                a, _ = T("w")
                _, b = T(e.inner.name, "name")
                e.inner.start, e.inner.stop = a, b
                if e.end:
                    _, b = T("end")
                e.start, e.stop = a, b

        for i in fe.imports:
            emit(i)
        for e in fe.items:
            emit(e)
        for raw in fe.tail_tokens:
            T(raw, "injected")
        fe.text = fe.prefix + "".join(out)
        # the trailing separator is kept: trailing whitespace is legal

    def install(self, simfs):
        # line_end: how the files are stored ("\r\n", "\r"); every offset of the generator refers to the text a reader
        # in text mode sees (universal newlines: "\n")
        le = getattr(self, "line_end", None)
        for p, fe in self.files.items():
            simfs.files[p] = fe.text.replace("\n", le) if le else fe.text

    def describe(self):
        d = {"main": self.main, "files": {p: fe.text for p, fe in self.files.items()}}
        return d


def linecol(text, offset):
    line = text.count("\n", 0, offset) + 1
    col = offset - (text.rfind("\n", 0, offset) + 1) + 1
    return line, col


def gen_world(tape, root, nfiles=1, qualified=False, max_refs=16, boxes=True, wraps=True, alt_multipart=True,
              vals=False, layout=True, subdirs=False, min_defs=2, spaced_names=True, shadows=False, second_ext=None, builtin_defs=()):
    """Draw a world.  Names are globally unique (d<i>, b<i>, u<i>, w<i>)."""
    w = World()
    w.qualified = qualified
    w.builtin_ents = list(builtin_defs)  # definitions of a builtin model (file None): visible from every file, last
    counters = {"d": 0, "b": 0, "u": 0, "w": 0}

    def fresh(k):
        n = f"{k}{counters[k]}"
        counters[k] += 1
        return n

    paths = []
    for i in range(nfiles):
        sub = ""
        if subdirs and i > 0 and tape.chance(1, 3, "subdir"):
            sub = tape.pick(["sub/", "sub/deep/", "other/"], "subdirname")
        # second_ext: files f<odd> belong to a second registered language (another file name pattern)
        paths.append(f"{root}/{sub}f{i}{second_ext if second_ext and i % 2 == 1 else '.m'}")
    for p in paths:
        w.files[p] = FileEnt(p)
    w.main = paths[0]
    # import graph: every file reachable from f0; extra edges (cycles, self, dup)
    edges = []
    for i in range(1, nfiles):
        j = tape.draw(i, "import-parent")
        edges.append((j, i))
    if nfiles > 1:
        nextra = tape.draw(3, "extra-edges")
        for _ in range(nextra):
            a = tape.draw(nfiles, "edge-from")
            b = tape.draw(nfiles, "edge-to")
            edges.append((a, b))
    for a, b in edges:
        fe = w.files[paths[a]]
        uri = os.path.relpath(paths[b], os.path.dirname(paths[a]))
        imp = Ent("import", None, fe.path, None)
        imp.uri = uri
        imp.idx = len(fe.imports)
        imp.pre_tokens = []
        fe.imports.append(imp)
    w.edges = edges
    # definitions and containers
    for p in paths:
        fe = w.files[p]
        ndefs = min_defs + tape.draw(4, "ndefs")
        containers = [None]  # None = top level

        def add(e, cont):
            lst = fe.items if cont is None else cont.items
            e.idx = len(lst)
            e.pre_tokens = []
            lst.append(e)

        for _ in range(ndefs):
            cont = None
            if boxes and tape.chance(1, 3, "in-box"):
                if len(containers) == 1 or tape.chance(1, 3, "new-box"):
                    pc = tape.pick(containers, "box-parent")
                    b = Ent("box", fresh("b"), p, pc)
                    add(b, pc)
                    containers.append(b)
                    w.boxes.append(b)
                    cont = b
                else:
                    cont = containers[1 + tape.draw(len(containers) - 1, "which-box")]
            d = Ent("def", fresh("d"), p, cont)
            d.angled = tape.chance(1, 6, "def-in-angle-brackets")
            if vals and tape.chance(1, 2, "val"):
                d.v = 1 + tape.draw(9, "v")
            if vals and tape.chance(1, 3, "tag"):
                d.tag = "#t%d" % tape.draw(5, "tagv")
            add(d, cont)
            w.defs.append(d)
        if wraps:
            for _ in range(tape.draw(3, "nwraps")):
                cont = tape.pick(containers, "wrap-parent")
                wr = Ent("wrap", None, p, cont)
                wr.inner = Ent("inner", fresh("w"), p, wr)
                wr.inner.pre_tokens = []
                wr.end = tape.chance(1, 2, "wrap-end")
                add(wr, cont)
        fe._containers = containers
    # shadows: a directly imported file g defines a top-level name that the importing file p defines itself.  The
    # documented lookup order (the model itself first) makes p's references mean p's own definition; the copy in g is
    # never a target.  Not generated where a third file imports both p and g (the statement does not order imports).
    w.shadow_defs = []
    if shadows and nfiles > 1:
        for p in paths:
            for g in dict.fromkeys(w.direct_imports(p)):
                if g == p or g not in w.files or not tape.chance(1, 2, "shadow"):
                    continue
                if any(h not in (p, g) and p in w.direct_imports(h) and g in w.direct_imports(h) for h in paths):
                    continue
                cands = [d for d in w.defs if d.file == p and d.parent is None]
                if not cands:
                    continue
                victim = tape.pick(cands, "shadow-victim")
                if any(d.file == g and d.name == victim.name for d in w.shadow_defs):
                    continue
                s_ = Ent("def", victim.name, g, None)
                s_.pre_tokens = []
                s_.idx = len(w.files[g].items)
                w.files[g].items.append(s_)
                w.shadow_defs.append(s_)
    # uses and references
    budget = max_refs
    for p in paths:
        fe = w.files[p]
        vis = w.visible_defs(p)
        nuses = 1 + tape.draw(3, "nuses") if p == w.main else tape.draw(3, "nuses")
        for _ in range(nuses):
            if budget <= 0 or not vis:
                break
            cont = tape.pick(fe._containers, "use-parent")
            u = Ent("use", fresh("u"), p, cont)
            lst = fe.items if cont is None else cont.items
            # position among siblings: before or after the definitions
            at = tape.draw(len(lst) + 1, "use-at")
            at = len(lst) - at  # 0 -> append at the end
            lst.insert(at, u)
            u.pre_tokens = []
            for k, e in enumerate(lst):
                e.idx = k
            nl = 1 + tape.draw(min(4, len(vis), budget), "nlist")
            order = tape.perm(len(vis), "targets")[:nl]
            if nl >= 2 and tape.chance(1, 4, "repeated-target"):
                # the same object referenced twice in one list: positions are still told apart by the references' offsets
                j = 1 + tape.draw(nl - 1, "repeat-at")
                order[j] = order[tape.draw(j, "repeat-of")]
                w.repeated_targets = True
            for k, ti in enumerate(order):
                r = Ref(u, "refs", k, vis[ti])
                u.refs.append(r)
            budget -= nl
            if nl >= 2 and tape.chance(1, 4, "list-continued-after-the-single-references"):
                u.split = 1 + tape.draw(nl - 1, "split-at")
                w.split_lists = True
            if budget > 0 and tape.chance(1, 4, "second-reference-list"):
                nm = 1 + tape.draw(min(3, len(vis), budget), "nmore")
                for k, ti in enumerate(tape.perm(len(vis), "more-targets")[:nm]):
                    u.refs.append(Ref(u, "more", k, vis[ti]))
                budget -= nm
                w.two_lists = True
            for attr in ("one", "opt"):
                if budget > 0 and tape.chance(1, 3, "has-" + attr):
                    r = Ref(u, attr, None, tape.pick(vis, attr + "-target"))
                    u.refs.append(r)
                    budget -= 1
            if budget > 0 and tape.chance(1, 4, "has-alt"):
                # written with the '::' match rule; multi-part only where the provider honours the rule's split
                cands = vis if (alt_multipart or not qualified) else [d for d in vis if d.parent is None]
                if cands:
                    u.refs.append(Ref(u, "alt", None, tape.pick(cands, "alt-target")))
                    budget -= 1
            w.uses.append(u)
    for p in paths:
        fe = w.files[p]
        fe.tail_tokens = []
        if layout:
            fe.prefix = tape.pick(["", " ", "\n", "\n  "], "prefix")
            n = 1 + tape.draw(5, "nseps")
            fe.seps = [tape.pick([" ", "\n", "  ", "\n "], "sep") for _ in range(n)]
        else:
            fe.seps = [" "]
    # refs in textual order per file
    for p in paths:
        for e in w.all_ents(w.files[p]):
            if e.kind == "use":
                for r in e.refs:
                    r.text_override = None
                    w.refs.append(r)
    for r in w.refs:
        r.key = r.sid()
        if qualified and spaced_names and tape.chance(1, 4, "spaced-name"):
            r.spacing = tape.pick([" . ", ".\n", " .", ". "], "spacing")
    w.render()
    return w


def locate(model, path):
    """Follow an Ent.path() in a real textX model."""
    o = model
    for step in path:
        if step == "inner":
            o = o.inner
        else:
            o = getattr(o, step[0])[step[1]]
    return o


def walk_model(model):
    """All objects of a real model by containment (pre-order), using the
    grammar's known containment attributes (independent of textX's own
    get_children)."""
    out = []

    def rec(o):
        out.append(o)
        for a in ("imports", "items"):
            lst = o.__dict__.get(a) if hasattr(o, "__dict__") else None
            if lst is None:
                lst = getattr(o, a, None)
            if isinstance(lst, list):
                for c in lst:
                    if hasattr(type(c), "_tx_attrs"):
                        rec(c)
        inner = getattr(o, "inner", None)
        if inner is not None and hasattr(type(inner), "_tx_attrs"):
            rec(inner)

    rec(model)
    return out
