#!/venv/bin/python
"""Regenerate /verif/MANIFEST.json from tvsim.main.PROPS (only properties whose world module exists are claimed)."""
import json
import os
import sys

HERE = os.path.dirname(os.path.dirname(os.path.abspath(__file__)))
sys.path.insert(0, HERE)
import re

src = open(os.path.join(HERE, "tvsim", "main.py")).read()
PROPS = {}
for m in re.finditer(r'"(C\d+)": \("(\w+)", "(\w+)", (\d+), (\d+), "([^"]+)"\)', src):
    PROPS[m.group(1)] = (m.group(2), m.group(3), int(m.group(4)), int(m.group(5)), m.group(6))

TECH = "deterministic simulation with fault injection: seeded choice tape decides world, postponement schedule, " \
       "fault sites and nested loads; scripted seams (scope providers, processors, user classes, SimFS, entry points, " \
       "output file); oracles over the recorded event log and final state; tape minimiser + exact replay"

LEVEL = {
    "C08": ("seeded search over postponement schedules imposed by a scripted scope provider on generated multi-file "
            "worlds; oracle = identity of every list slot against the generator's name table. Sampling, not proof: "
            "the schedule space (which reference answers Postponed in which round) is what unit tests cannot cover.",
            "grammar template family of tvsim/gen.py only (item grammar + class/method template R2); lists may repeat a target, be continued at a second place of the rule, and an object may own two of them; the match rule may be called `sep`; plain, falsy and value-equal user-class objects; schedules from the scheduler's own bookkeeping, from asking textX (needs_to_be_resolved), from a provider inside ImportURI, and natural RREL postponement; CPython, Arpeggio trusted"),
    "C09": ("seeded search over dependency structures (DAGs, cycles, self-dependency, never, dense round maps) across "
            "1-3 files; bounded liveness = provider-call budget N+2 per reference; verdict against the least fixpoint; "
            "result against the name table and the eager schedule; failure report by multiset of names.",
            "time-based (round) plans only as dense maps; dependency plans also decided by asking textX (attribute-level fixpoint as the reference); shadowed names with a provider inside ImportURI; a builtins dictionary whose keys the models define themselves; line/col of the report entries are C28's clause"),
    "C34": ("W1 worlds with textx_tools_support=True under postponement schedules: bijection, sortedness, exact "
            "reference span, definition file/span from the generator's offsets; position map keys, innermost value, "
            "containment order.",
            "object spans themselves are taken from the model (C06 not claimed); builtins dictionaries excluded, builtin models parsed from strings included; two registered languages with independent tool-support flags (each model judged by its own flag)"),
    "C13": ("ordering / exactly-once checks over the recorded callback history of one load (provider answers, "
            "constructor calls, processor calls) under multi-round schedules, several files and user classes.",
            "template family only (also spread over three grammar files with a transitive import); abstract alternatives are common rules; value-equal and falsy user classes, partial replacement, falsy replacement values; two registered languages with processors of their own; the same classes used by an earlier / a later metamodel"),
    "C14": ("user-class variants x schedules x faults x re-entrant loads; constructor history and class __dict__ "
            "snapshots compared at quiescence.",
            "inert bookkeeping attributes are reported, not gated; user classes for every common rule incl. scalar containment; immutable root values (int, Decimal, tuple, frozenset); callbacks aborting with KeyboardInterrupt / an application BaseException"),
    "C15": ("fault enumeration over the crossings of a census run: every callback kind and input corruption as a "
            "failure point; weak references must die, classes must be uninstrumented, the next load must equal a "
            "fresh metamodel's.",
            "open() errors are evaluated but never gate (not in the statement); reachability by weak references taken at two hooks plus a scan of the collector's objects for instances of the metamodel's classes"),
    "C33": ("the injected fault is the failing processor call (k-th match/object processor, 3 exception kinds); "
            "location fields compared with the harness's own offsets.",
            "template family only"),
    "C16": ("seeded histories of interleaved loads over a pool of metamodel configurations; reference outcome computed "
            "in a freshly forked pristine process and compared as structural dumps.",
            "debug metamodels are excluded on purpose (debug output is intended history); with a global repository a cached reload must still dump equal to the fresh-process outcome; quick tier: reference outcomes per configuration in one pristine process + a pristine sample, thorough: one pristine process per outcome"),
    "C17": ("histories of loads over generated import graphs on SimFS, every provider family; opens counted at the "
            "seam, identities compared with a ~80 line repository model.",
            "collisions between two direct imports are not generated (unordered by the statement); file names compared in canonical spelling (symlinked root); twin files in two search locations; files stored as UTF-8 with BOM / UTF-16 and with CRLF / CR line ends; user classes (plain, falsy, value-equal)"),
    "C18": ("every file of the graph as the failing one x phase x repository mode, then repair and reload; repository "
            "contents compared with the pre-attempt snapshot.",
            "open() errors reported, not gated; processors fail with TextXError, ValueError or an application exception; the second language's own repository and a caller-owned repository are surviving repositories too"),
    "C27": ("parameter forwarding checked on every model created by a load across the four forwarding paths, and "
            "rejection of undeclared keywords before any I/O.",
            "values are small strings/ints/None; project_root in non-normalised spellings; a parameter declared between loads; a parameter called `source`; a helper object with identity semantics as a value"),
    "C28": ("the injected fault is a corruption at a known offset of a known file; filename/line/col compared with "
            "the harness's own line table.",
            "syntax faults only at token starts; ambiguous across files accepts either consistent location"),
    "C26": ("step-by-step refinement of the registration module against a ~70 line map model over a small universe, "
            "with a scripted entry-point table.",
            "patterns are strings; one fault kind: factories failing for a with-arguments request; languages registered without a pattern; the same descriptor object registered again"),
    "C31": ("every write/flush/close of the output file of the built-in generators fails in turn (all k x kinds "
            "enumerated per case); output path must be absent or complete; a rerun without --overwrite must complete it.",
            "hard kills are not simulated (the statement speaks of a generator that fails); failures are OSError, an application error, KeyboardInterrupt or SystemExit; built-in generators, a user generator writing through gen_file(), and the real `textx generate` command over 1-2 files; faults that persist; a missing output folder; a generator calling another generator; any stray file in the output directory counts"),
}

NA = {
    "C01": "acceptance and model shape are a pure function of (grammar, input, kwargs): no schedule, fault, clock or history in the statement; needs an independent PEG interpreter over generated grammars, a different technique",
    "C02": "multiplicity inference and value storage are a pure function of grammar and input",
    "C03": "rule kinds / textx_isinstance are a pure function of the grammar's reference graph",
    "C04": "base-type conversion is a pure function of the literal text",
    "C05": "parent links and the navigation API are a pure function of the loaded object graph",
    "C06": "spans and get_location are a pure function of the input layout",
    "C07": "default resolution is deterministic and never postpones: a pure function of the model",
    "C10": "FQN lookup is a pure function of the tree and the dotted name",
    "C11": "RREL evaluation is a pure function of expression, model and name (its Postponed path is used only as a schedule source in W1)",
    "C12": "RREL print/parse round trip is pure",
    "C19": "memoization on/off equivalence is a pure function of (grammar, input, flag); the history aspect (shared packrat caches) is covered under C16",
    "C20": "case folding is a pure metamorphic relation over inputs",
    "C21": "keyword boundaries are a pure metamorphic relation over inputs",
    "C22": "whitespace/comment insertion is a pure metamorphic relation over inputs",
    "C23": "exception type for arbitrary grammar text is a pure function of the text",
    "C24": "agreement of two grammars of the textX language is a pure differential over texts",
    "C25": "grammar files are read once, deterministically, no fault or schedule in the statement: a pure function of the file tree",
    "C29": "DOT/PlantUML well-formedness is a pure function of metamodel/model",
    "C30": "CLI exit codes and argument passing are a pure function of argv and file contents; no fault in the statement",
    "C32": "provider precedence is a finite configuration space (16 key subsets x RREL) with no schedule: an enumeration, not a simulation",
}

checks = []
pending = []
for pid, (mod, level, q, t, ref) in sorted(PROPS.items()):
    if not os.path.exists(os.path.join(HERE, "tvsim", "worlds", mod + ".py")):
        pending.append(pid)
        continue
    text, note = LEVEL[pid]
    checks.append({
        "property_id": pid,
        "quick_cmd": f"./check {pid} --tier quick",
        "thorough_cmd": f"./check {pid} --tier thorough",
        "evidence_file": f"/verif/evidence/{pid}.json",
        "replay_cmd_template": f"./check {pid} --replay {{path}}",
        "engine": "tvsim",
        "level_claimed": {"category": level, "text": text, "design_ref": "DESIGN.md section " + ref},
        "level_note": note,
        "technique": TECH,
    })

na = [{"property_id": k, "reason": v} for k, v in sorted(NA.items())]
for pid in pending:
    na.append({"property_id": pid, "reason": "claimed in DESIGN.md but its world is not built yet in this commit (work in progress)"})
na.sort(key=lambda x: x["property_id"])

manifest = {
    "version": 1,
    "setup_cmd": "mkdir -p /verif/evidence /verif/replays && /venv/bin/python -c \"import sys; sys.path.insert(0, '/verif'); import tvsim.core, tvsim.seams\"",
    "hooks": {
        "guard": "TEXTX_VERIF",
        "enable": "no hooks exist: every seam is a public callback, a module attribute or a shimmed builtin installed from /verif before textx is imported; checks import /repo's working tree directly (nothing to build)",
        "baseline_off_cmd": "cd /repo && /venv/bin/python -m pytest -ra -q -p no:cacheprovider --timeout=900 --continue-on-collection-errors",
        "source_commits": [],
        "add_only": True,
    },
    "engines": [{
        "name": "tvsim",
        "path": "/verif/tvsim",
        "serves_properties": [c["property_id"] for c in checks],
        "kind_free_text": "deterministic simulator for the textX load protocol: seeded choice tape, scripted callbacks and in-memory file system, fault injection, event-log oracles, tape minimiser, replay",
    }],
    "checks": checks,
    "notes": "See DESIGN.md. Exit codes: 0 held, 1 VIOLATION, 2 harness error. Genuine defects repaired in /repo are listed as 'fixed' in known_findings.json.",
    "not_applicable": na,
}
with open(os.path.join(HERE, "MANIFEST.json"), "w") as f:
    json.dump(manifest, f, indent=1)
print("claimed:", [c["property_id"] for c in checks], "pending:", pending)
