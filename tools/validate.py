#!/usr/bin/env python3
"""Validate MANIFEST.json and evidence/*.json against the schemas (python3-vt has jsonschema)."""
import json, glob, sys
import jsonschema
ok = True
m = json.load(open('/verif/MANIFEST.json'))
jsonschema.validate(m, json.load(open('/root/.vp/MANIFEST.schema.json')))
es = json.load(open('/root/.vp/EVIDENCE.schema.json'))
for c in m['checks']:
    try:
        jsonschema.validate(json.load(open(c['evidence_file'])), es)
    except Exception as e:
        ok = False
        print('BAD', c['evidence_file'], str(e)[:300])
print('manifest ok; evidence', 'ok' if ok else 'BAD')
sys.exit(0 if ok else 1)
