#!/venv/bin/python
"""
Confirm and evaluate a seeded change produced by an independent sub-agent.

usage: tools/seed_eval.py <src-dir-with patch.diff+demo.py[+README.md]> <seed-id> <property> [--runs N] [--also P,Q]

In a scratch copy of /repo (outside /repo and /verif, removed afterwards):
  1. demo.py passes on the unchanged copy,
  2. the patch applies, the pinned suite still passes every stable_pass test,
  3. demo.py fails with the patch,
  4. the owning check (and --also) is run against the patched copy.
If 1-3 hold, the change is kept as /verif/seeded/<seed-id>/ (patch.diff, demo.py, README.md, meta.json).
"""
import argparse
import json
import os
import shutil
import subprocess
import sys
import tempfile

HERE = os.path.dirname(os.path.dirname(os.path.abspath(__file__)))


def sh(cmd, **kw):
    return subprocess.run(cmd, capture_output=True, text=True, **kw)


def main():
    ap = argparse.ArgumentParser()
    ap.add_argument("src")
    ap.add_argument("sid")
    ap.add_argument("prop")
    ap.add_argument("--runs", type=int, default=0)
    ap.add_argument("--also", default="")
    ap.add_argument("--skip-suite", action="store_true")
    a = ap.parse_args()
    src = os.path.abspath(a.src)
    s = tempfile.mkdtemp(prefix="tvsim-seed-")
    meta = {"id": a.sid, "breaks": a.prop, "source": "independent sub-agent given only the property text and a scratch worktree"}
    try:
        sh(["rsync", "-a", "--exclude", ".git", "--exclude", "__pycache__", "--exclude", "MUTATION*", "/repo/", s + "/repo/"])
        env = dict(os.environ, PYTHONPATH=s + "/repo", PYTHONDONTWRITEBYTECODE="1")
        demo = os.path.join(src, "demo.py")
        r0 = sh(["/venv/bin/python", demo], cwd=s + "/repo", env=env, timeout=600)
        meta["demo_unchanged_exit"] = r0.returncode
        p = sh(["patch", "-p1", "-s", "-i", os.path.join(src, "patch.diff")], cwd=s + "/repo")
        meta["patch_applies"] = p.returncode == 0
        if p.returncode != 0:
            print("PATCH FAILED", p.stdout, p.stderr)
            print(json.dumps(meta))
            return 1
        imp = sh(["/venv/bin/python", "-c", "import textx; print(textx.__file__)"], cwd=s + "/repo", env=env)
        meta["imports"] = imp.returncode == 0 and s in imp.stdout
        old = os.path.join(HERE, "seeded", a.sid, "meta.json")
        if a.skip_suite and os.path.exists(old):
            # the suite result of the first (full) evaluation of this change stays on record
            o = json.load(open(old))
            for k in ("suite", "suite_ok"):
                if o.get(k) is not None:
                    meta[k] = o[k]
        if not a.skip_suite:
            b = sh(["/venv/bin/python", os.path.join(HERE, "tools", "baseline.py"), s + "/repo"], timeout=1800)
            meta["suite"] = b.stdout.strip().splitlines()[0] if b.stdout.strip() else b.stderr[-200:]
            meta["suite_ok"] = b.returncode == 0
        r1 = sh(["/venv/bin/python", demo], cwd=s + "/repo", env=env, timeout=600)
        meta["demo_changed_exit"] = r1.returncode
        meta["demo_changed_tail"] = (r1.stdout + r1.stderr).strip()[-400:]
        confirmed = (r0.returncode == 0 and r1.returncode != 0 and meta["imports"] and meta.get("suite_ok", True))
        meta["confirmed"] = confirmed
        os.makedirs(s + "/out", exist_ok=True)
        envc = dict(os.environ, TVSIM_REPO=s + "/repo", TVSIM_OUT=s + "/out")
        checks = {}
        for prop in [a.prop] + [x for x in a.also.split(",") if x]:
            cmd = [os.path.join(HERE, "check"), prop]
            if a.runs:
                cmd += ["--runs", str(a.runs)]
            r = sh(cmd, env=envc, timeout=3600)
            lines = r.stdout.splitlines()
            checks[prop] = {
                "cmd": " ".join(["TVSIM_REPO=<patched copy>"] + ["./check"] + cmd[1:]),
                "exit": r.returncode,
                "violation_lines": [l for l in lines if l.startswith("VIOLATION")][:3],
                "clauses": sorted({l.split("clause=")[1].split()[0] for l in lines if "clause=" in l}),
                "first_message": next((lines[i + 2].strip() for i, l in enumerate(lines) if l.startswith("VIOLATION") and i + 2 < len(lines)), None),
                "tail": lines[-1][:300] if lines else r.stderr[-300:],
            }
        meta["checks"] = checks
        meta["caught_by"] = [p for p, c in checks.items() if c["exit"] == 1 and c["violation_lines"]]
        if confirmed:
            d = os.path.join(HERE, "seeded", a.sid)
            os.makedirs(d, exist_ok=True)
            for f in ("patch.diff", "demo.py", "README.md"):
                if os.path.exists(os.path.join(src, f)):
                    shutil.copy(os.path.join(src, f), os.path.join(d, f))
            readme = os.path.join(src, "README.md")
            meta["needs"] = open(readme).read()[:1500] if os.path.exists(readme) else ""
            with open(os.path.join(d, "meta.json"), "w") as f:
                json.dump(meta, f, indent=1)
        print(json.dumps({k: meta[k] for k in ("id", "confirmed", "demo_unchanged_exit", "demo_changed_exit", "caught_by")
                          if k in meta} | {"suite": meta.get("suite"), "clauses": {p: c["clauses"] for p, c in checks.items()},
                                           "exit": {p: c["exit"] for p, c in checks.items()}}))
    finally:
        shutil.rmtree(s, ignore_errors=True)
    return 0


if __name__ == "__main__":
    sys.exit(main())
