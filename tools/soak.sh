#!/bin/sh
# Background soak: every check at a mid-size budget under a series of VERIF_SEED values.
# usage: tools/soak.sh <first-seed> <n-seeds> [workers] [scale]   (writes soak_out/, prints one line per check)
cd "$(dirname "$0")/.." || exit 2
S0=${1:-101}; N=${2:-3}; W=${3:-6}; SC=${4:-10}
TVSIM_OUT="$(pwd)/soak_out"; export TVSIM_OUT; mkdir -p "$TVSIM_OUT"
i=0
while [ $i -lt "$N" ]; do
  seed=$((S0+i))
  for id in C08 C09 C34 C13 C14 C15 C33 C16 C17 C18 C27 C28 C26 C31; do
    case $id in C16) runs=$((1000*SC/2));; C26) runs=$((5000*SC));; C31) runs=$((300*SC));; C15|C33|C18|C28) runs=$((2000*SC/4));; *) runs=$((3000*SC));; esac
    s=$(date +%s)
    VERIF_SEED=$seed timeout 7200 ./check $id --tier thorough --runs $runs --workers "$W" > "$TVSIM_OUT/$id-$seed.log" 2>&1
    rc=$?
    echo "seed=$seed $id rc=$rc $(( $(date +%s)-s ))s $(grep -c VIOLATION "$TVSIM_OUT/$id-$seed.log") viol; $(grep -E 'HARNESS|VIOLATION' "$TVSIM_OUT/$id-$seed.log" | head -3)"
  done
  i=$((i+1))
done
