#!/bin/sh
# usage: tools/mutant.sh <patch-file> <runs> <prop> [<prop>...]
# Applies the patch to a scratch copy of /repo (outside /repo and /verif), runs the given checks against it
# (TVSIM_REPO), prints one line per property, removes the scratch copy.
PATCH="$(readlink -f "$1")"; RUNS="$2"; shift 2
S="$(mktemp -d /tmp/tvsim-mut-XXXXXX)"
rsync -a --exclude .git --exclude __pycache__ /repo/ "$S/repo/"
if ! (cd "$S/repo" && patch -p1 -s < "$PATCH"); then echo "PATCH-FAILED $PATCH"; rm -rf "$S"; exit 3; fi
mkdir -p "$S/out"
for P in "$@"; do
  TVSIM_REPO="$S/repo" TVSIM_OUT="$S/out" /verif/check "$P" --runs "$RUNS" > "$S/out/$P.log" 2>&1
  RC=$?
  echo "$(basename "$PATCH") $P exit=$RC $(grep -c '^VIOLATION' "$S/out/$P.log") violation-lines; $(grep -m1 -A1 '^VIOLATION' "$S/out/$P.log" | tail -1 | cut -c1-150)"
  [ -n "$MUT_VERBOSE" ] && cat "$S/out/$P.log"
done
rm -rf "$S"
