#!/venv/bin/python
"""
Sensitivity self-test: apply each mutant patch (mutants/*.patch or seeded/*/patch.diff) to a scratch copy of /repo
(outside /repo and /verif), run the owning checks with TVSIM_REPO pointing at the copy and report whether they raise
a VIOLATION; optionally (--others) also run all other checks to see which stay silent.

usage: tools/sensitivity.py [--runs N] [--only m03,m04] [--others] [--jobs J] [--seeded]
Result table is printed and written to mutants/last_result.json.
"""
import argparse
import json
import os
import shutil
import subprocess
import sys
import tempfile
from concurrent.futures import ThreadPoolExecutor

HERE = os.path.dirname(os.path.dirname(os.path.abspath(__file__)))
ALL = ["C08", "C09", "C13", "C14", "C15", "C16", "C17", "C18", "C26", "C27", "C28", "C31", "C33", "C34"]


def run_one(mid, patch, props, runs, workers):
    s = tempfile.mkdtemp(prefix="tvsim-mut-")
    res = {}
    try:
        subprocess.run(["rsync", "-a", "--exclude", ".git", "--exclude", "__pycache__", "/repo/", s + "/repo/"], check=True)
        p = subprocess.run(["patch", "-p1", "-s", "-i", patch], cwd=s + "/repo", capture_output=True, text=True)
        if p.returncode != 0:
            return {x: "PATCH-FAILED" for x in props}
        os.makedirs(s + "/out", exist_ok=True)
        env = dict(os.environ, TVSIM_REPO=s + "/repo", TVSIM_OUT=s + "/out", TVSIM_WORKERS=str(workers))
        for prop in props:
            cmd = [os.path.join(HERE, "check"), prop] + ([] if os.environ.get("SENS_MINIMISE") else ["--no-min"])
            if runs:
                cmd += ["--runs", str(runs)]
            r = subprocess.run(cmd, env=env, capture_output=True, text=True, timeout=1800)
            viol = [l for l in r.stdout.splitlines() if l.startswith("VIOLATION")]
            clauses = sorted({l.split("clause=")[1].split()[0] for l in r.stdout.splitlines() if "clause=" in l})
            res[prop] = {"exit": r.returncode, "violations": len(viol), "clauses": clauses,
                         "tail": r.stdout.strip().splitlines()[-1][:200] if r.stdout.strip() else r.stderr[-200:]}
            if viol and r.returncode == 1:
                # the replay file must reproduce on the changed tree and show nothing on the unchanged one
                rp = viol[0].split("replay=")[1].strip()
                a = subprocess.run([os.path.join(HERE, "check"), prop, "--replay", rp], env=env, capture_output=True, text=True)
                env0 = dict(os.environ, TVSIM_OUT=s + "/out")
                env0.pop("TVSIM_REPO", None)
                b = subprocess.run([os.path.join(HERE, "check"), prop, "--replay", rp], env=env0, capture_output=True, text=True)
                res[prop]["replay_on_changed_tree_exit"] = a.returncode
                res[prop]["replay_same_digest"] = "digest=" in a.stdout and "digest differs" not in a.stdout
                res[prop]["replay_on_unchanged_tree_exit"] = b.returncode
    finally:
        shutil.rmtree(s, ignore_errors=True)
    return res


def main():
    ap = argparse.ArgumentParser()
    ap.add_argument("--runs", type=int, default=0)
    ap.add_argument("--only")
    ap.add_argument("--others", action="store_true")
    ap.add_argument("--jobs", type=int, default=4)
    ap.add_argument("--seeded", action="store_true")
    a = ap.parse_args()
    items = []
    if a.seeded:
        d = os.path.join(HERE, "seeded")
        for mid in sorted(os.listdir(d)):
            meta = json.load(open(os.path.join(d, mid, "meta.json")))
            items.append((mid, os.path.join(d, mid, "patch.diff"), meta["breaks"] if isinstance(meta["breaks"], list) else [meta["breaks"]]))
    else:
        cat = json.load(open(os.path.join(HERE, "mutants", "catalogue.json")))
        for mid, m in sorted(cat.items()):
            items.append((mid, os.path.join(HERE, "mutants", mid + ".patch"), m["properties"]))
    if a.only:
        sel = set(a.only.split(","))
        items = [i for i in items if i[0] in sel]
    avail = [p for p in ALL if os.path.exists(os.path.join(HERE, "evidence", p + ".json"))]
    workers = max(2, (os.cpu_count() or 4) // a.jobs)
    out = {}
    with ThreadPoolExecutor(a.jobs) as ex:
        futs = {}
        for mid, patch, props in items:
            props = [p for p in props if p in avail]
            run_props = props + ([p for p in avail if p not in props] if a.others else [])
            futs[mid] = (ex.submit(run_one, mid, patch, run_props, a.runs, workers), props)
        for mid, (f, props) in futs.items():
            r = f.result()
            out[mid] = r
            caught = [p for p in props if isinstance(r.get(p), dict) and r[p]["exit"] == 1 and r[p]["violations"]]
            others = [p for p in r if p not in props and isinstance(r[p], dict) and r[p]["exit"] == 1]
            broken = [p for p in r if isinstance(r[p], dict) and r[p]["exit"] == 2]
            status = "CAUGHT" if caught else "MISSED"
            rep = [(r[p].get("replay_on_changed_tree_exit"), r[p].get("replay_same_digest"),
                    r[p].get("replay_on_unchanged_tree_exit")) for p in caught]
            print(f"{mid:28s} {status:7s} expected={props} caught={caught} "
                  f"clauses={[r[p]['clauses'] for p in caught]} replay(changed,same-digest,unchanged)={rep} "
                  f"also-fired={others} harness-error={broken}")
            sys.stdout.flush()
    with open(os.path.join(HERE, "mutants", "last_result.json" if not a.seeded else "last_result_seeded.json"), "w") as f:
        json.dump(out, f, indent=1, sort_keys=True)
    missed = [m for m in out if not any(isinstance(v, dict) and v["exit"] == 1 for v in out[m].values())]
    print(f"{len(out) - len(missed)}/{len(out)} caught; missed: {missed}")


if __name__ == "__main__":
    main()
