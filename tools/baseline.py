#!/venv/bin/python
"""Run the pinned test suite of a textX tree and compare with /root/.vp/BASELINE.json.
usage: baseline.py [repo_dir]   (exit 0 iff every stable_pass test passes)"""
import json, os, subprocess, sys, tempfile
import xml.etree.ElementTree as ET

repo = sys.argv[1] if len(sys.argv) > 1 else "/repo"
base = json.load(open("/root/.vp/BASELINE.json"))
with tempfile.TemporaryDirectory() as d:
    x = os.path.join(d, "r.xml")
    env = dict(os.environ)
    env.pop("TEXTX_VERIF", None)
    env["PYTHONDONTWRITEBYTECODE"] = "1"
    p = subprocess.run(["/venv/bin/python", "-m", "pytest", "-q", "-p", "no:cacheprovider", "--timeout=900",
                        "--continue-on-collection-errors", f"--junitxml={x}"], cwd=repo, env=env,
                       capture_output=True, text=True)
    passed = set()
    failed = set()
    for tc in ET.parse(x).getroot().iter("testcase"):
        tid = f"{tc.get('classname')}::{tc.get('name')}"
        if any(c.tag in ("failure", "error", "skipped") for c in tc):
            failed.add(tid)
        else:
            passed.add(tid)
missing = [t for t in base["stable_pass"] if t not in passed]
print(f"passed={len(passed)} failed={len(failed)} stable_pass_missing={len(missing)}")
for t in missing[:20]:
    print("  MISSING", t)
sys.exit(1 if missing else 0)
