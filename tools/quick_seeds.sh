#!/bin/sh
# every quick check under a series of VERIF_SEED values (what `vp check` does with VERIF_SEED=1); prints only problems
# usage: tools/quick_seeds.sh <first-seed> <n-seeds> [workers]
cd "$(dirname "$0")/.." || exit 2
S0=${1:-1}; N=${2:-5}; W=${3:-8}
TVSIM_OUT="$(pwd)/soak_out"; export TVSIM_OUT; mkdir -p "$TVSIM_OUT"
i=0; bad=0
while [ $i -lt "$N" ]; do
  seed=$((S0+i))
  for id in C08 C09 C34 C13 C14 C15 C33 C16 C17 C18 C27 C28 C26 C31; do
    VERIF_SEED=$seed timeout 3600 ./check $id --tier quick --workers "$W" > "$TVSIM_OUT/q-$id-$seed.log" 2>&1
    rc=$?
    if [ $rc -ne 0 ]; then bad=$((bad+1)); echo "seed=$seed $id rc=$rc: $(grep -E 'HARNESS|VIOLATION|clause' "$TVSIM_OUT/q-$id-$seed.log" | head -3)"; fi
  done
  echo "seed=$seed done"
  i=$((i+1))
done
echo "problems: $bad"
