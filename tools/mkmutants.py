#!/venv/bin/python
"""
Generate /verif/mutants/<id>.patch from a catalogue of (file, old, new) edits of the *current* /repo tree, and
/verif/mutants/catalogue.json (which property each is expected to break).  Each mutant is a small edit that still
imports; `tools/sensitivity.py` runs the owning checks against a scratch copy with the patch applied.
"""
import difflib
import json
import os
import sys

REPO = "/repo"
OUT = os.path.join(os.path.dirname(os.path.dirname(os.path.abspath(__file__))), "mutants")

M = []


def mut(mid, props, file, old, new, note=""):
    M.append((mid, props, file, old, new, note))


# ---------------- W1
mut("m01", ["C08", "C34"], "textx/model.py",
    "        for obj, attr, crossref in current_crossrefs:\n            if get_model(obj) is self.model:",
    "        for obj, attr, crossref in reversed(current_crossrefs):\n            if get_model(obj) is self.model:",
    "resolve references in reverse textual order")
mut("m02", ["C08"], "textx/model.py",
    "                        idx = bisect_right(positions, crossref.position)\n",
    "                        idx = max(bisect_right(positions, crossref.position) - 1, 0) if positions else 0\n",
    "insertion index off by one for postponed list elements")
mut("m03", ["C09"], "textx/model.py",
    "                while unresolved_count > 0 and resolved_count > 0:",
    "                while unresolved_count > 0:",
    "resolution loop no longer stops without progress")
mut("m04", ["C09"], "textx/model.py",
    "                        resolved_count += resolved_count_for_this_model",
    "                        resolved_count = resolved_count_for_this_model",
    "progress counted for the last model only (needs >= 2 files)")
mut("m05", ["C09"], "textx/model.py",
    "                    self.delayed_crossrefs.append((obj, attr, crossref))\n                    new_crossrefs.append((obj, attr, crossref))",
    "                    self.delayed_crossrefs.append((obj, attr, crossref))\n                    if len(self.delayed_crossrefs) < 3:\n                        new_crossrefs.append((obj, attr, crossref))",
    "the third and later postponed references of a round are not re-queued")
mut("m06", ["C09"], "textx/model.py",
    "                        for _, _, delayed in m._tx_reference_resolver.delayed_crossrefs:",
    "                        for _, _, delayed in m._tx_reference_resolver.delayed_crossrefs[:1]:",
    "report only the first unresolvable reference of each model")
mut("m34", ["C34"], "textx/model.py",
    "                                crossref.position_end\n                                if crossref.position_end is not None",
    "                                crossref.position + len(resolved.name)\n                                if crossref.position_end is not None",
    "ref_pos_end from the target's name again (multi-part names only)")
mut("m35", ["C34"], "textx/model.py",
    "sorted(pos_rule_dict.items(), key=lambda x: (-x[0][0], x[0][1]))",
    "sorted(pos_rule_dict.items(), key=lambda x: x[0])",
    "position map sorted ascending")
mut("m36", ["C34"], "textx/model.py",
    "                    m._tx_reference_resolver.pos_crossref_list.sort(\n                        key=lambda x: x.ref_pos_start\n                    )\n",
    "",
    "drop the final sort of the crossref list")
mut("m37", ["C34"], "textx/model.py",
    "                            def_file_name=get_model(resolved)._tx_filename,",
    "                            def_file_name=self.model._tx_filename,",
    "definition file = referencing file (multi-file only)")
# ---------------- W2
mut("m07", ["C13"], "textx/model.py",
    "                # cleanup\n                for m in models:\n",
    "                # cleanup\n                for m in models[:1]:\n                    call_obj_processors(m._tx_metamodel, m)\n                for m in models:\n",
    "object processors of the first model run before construction of the others ended (and twice for it)")
mut("m08", ["C13"], "textx/model.py",
    "        if return_value_current is not None:\n            return return_value_current\n        else:\n            return return_value_grammar  # may be None",
    "        if return_value_grammar is not None:\n            return return_value_grammar\n        else:\n            return return_value_current  # may be None",
    "abstract-rule processor's replacement wins over the own rule's")
mut("m09", ["C13"], "textx/model.py",
    "                                    if result is not None:\n                                        attr[idx] = result",
    "                                    if result is not None and idx == 0:\n                                        attr[idx] = result",
    "replacement only applied to the first list slot")
mut("m10", ["C14"], "textx/model.py",
    "                        if k in obj.__class__._tx_attrs or k == \"parent\"",
    "                        if k in obj.__class__._tx_attrs or k == \"parent\" or k == \"_tx_position\"",
    "pass _tx_position to user __init__")
mut("m11", ["C14", "C15"], "textx/model.py",
    "                remove_models_from_repositories(models, models)\n                _restore_user_classes(models)\n",
    "                remove_models_from_repositories(models, models)\n",
    "failure during resolution no longer restores imported models' parsers")
mut("m12", ["C14", "C13"], "textx/model.py",
    "                if unresolved_count > 0:\n                    error_text",
    "                for m in models[1:]:\n                    if hasattr(m, \"_tx_parser\") and not m._tx_parser._crossrefs:\n                        pass\n                if unresolved_count > 0:\n                    error_text",
    "(equivalent placeholder, replaced below)")
mut("m13", ["C15", "C18"], "textx/model.py",
    "    except:  # noqa\n        _remove_all_affected_models_in_construction(model)\n        raise",
    "    except:  # noqa\n        raise",
    "no cleanup of models in construction on failure")
mut("m14", ["C14", "C15"], "textx/model.py",
    "                self._restore_user_attr_methods()\n                self._discard_user_obj_attrs()\n                raise",
    "                self._discard_user_obj_attrs()\n                raise",
    "no restore in the exception path of get_model_from_str")
mut("m38", ["C15", "C14"], "textx/model.py",
    "            the_parser._restore_user_attr_methods()\n            the_parser._discard_user_obj_attrs()\n",
    "            the_parser._restore_user_attr_methods()\n",
    "imported models' per-object storage not dropped on failure")
mut("m32", ["C33"], "textx/metamodel.py",
    "                if e.filename is None:\n                    e.filename = filename\n",
    "",
    "processor errors do not get the filename")
mut("m33", ["C33"], "textx/model.py",
    "                    raise TextXError(str(e), **get_location(obj)) from e",
    "                    raise TextXError(str(e)) from e",
    "textxerror_wrap without location (object processors lose nchar)")
mut("m39", ["C33"], "textx/model.py",
    "        line, col = parser.pos_to_linecol(nt.position)\n        if isinstance(nt, Terminal):",
    "        line, col = parser.pos_to_linecol(nt.position_end)\n        if isinstance(nt, Terminal):",
    "match processor errors located at the end of the match")
mut("m40", ["C33"], "textx/model.py",
    "    line, col = the_model._tx_parser.pos_to_linecol(model_obj._tx_position)\n    nchar",
    "    line, col = the_model._tx_metamodel._parser_blueprint.pos_to_linecol(model_obj._tx_position)\n    nchar",
    "get_location uses the blueprint parser (line table of whatever was parsed last)")
# ---------------- W3
mut("m15", ["C16"], "textx/model.py",
    "            the_clone._instances = {}\n",
    "",
    "parser clones share _instances with the blueprint")
mut("m16", ["C16"], "textx/lang.py",
    "    if metamodel.debug in textX_parsers:\n        parser = textX_parsers[metamodel.debug]",
    "    if textX_parsers:\n        parser = next(iter(textX_parsers.values()))",
    "grammar parser cache ignores the debug key")
# ---------------- W4
mut("m18", ["C17"], "textx/scoping/__init__.py",
    "            if self.all_models.has_model(filename):\n                # print(\"CACHED {}\".format(filename))",
    "            if False and self.all_models.has_model(filename):\n                # print(\"CACHED {}\".format(filename))",
    "load_model ignores the all_models cache")
mut("m19", ["C17"], "textx/scoping/providers.py",
    "        # 1) try to find object locally\n        ret = self.scope_provider(obj, attr, obj_ref)\n        if ret is not None:\n            return ret\n",
    "",
    "ImportURI does not search the model itself first")
mut("m20", ["C17"], "textx/metamodel.py",
    "            if self._tx_model_repository.all_models.has_model(file_name):",
    "            if False and self._tx_model_repository.all_models.has_model(file_name):",
    "cached model never returned for a repeated load")
mut("m21", ["C18"], "textx/scoping/__init__.py",
    "    def remove_model(self, model):\n        self.all_models.remove_model(model)\n        self.local_models.remove_model(model)",
    "    def remove_model(self, model):\n        self.local_models.remove_model(model)",
    "remove_model only from local_models")
mut("m22", ["C18"], "textx/model.py",
    "                remove_models_from_repositories(models, models)\n                _restore_user_classes(models)",
    "                _restore_user_classes(models)",
    "resolution-phase failures do not clean the repositories")
mut("m23", ["C27"], "textx/scoping/providers.py",
    "                    add_to_local_models=add_to_local_models,\n                    model_params=model._tx_model_params,\n                )\n                obj._tx_loaded_models = [loaded_model]",
    "                    add_to_local_models=add_to_local_models,\n                    model_params=type(model._tx_model_params)({}),\n                )\n                obj._tx_loaded_models = [loaded_model]",
    "search-path branch drops the model parameters")
mut("m24", ["C27"], "textx/scoping/providers.py",
    "                glob_args=self.glob_args,\n                encoding=encoding,\n                model_params=model._tx_model_params,\n            )\n        for m in self.models_to_be_added_directly:",
    "                glob_args=self.glob_args,\n                encoding=encoding,\n                model_params=type(model._tx_model_params)({}),\n            )\n        for m in self.models_to_be_added_directly:",
    "GlobalRepo branch drops the model parameters")
mut("m25", ["C27"], "textx/model_params.py",
    "                raise TextXError(f\"unknown parameter {k} ({source})\")",
    "                continue",
    "undeclared parameters accepted")
mut("m26", ["C28"], "textx/model.py",
    "                    line, col = self.parser.pos_to_linecol(crossref.position)\n                    raise TextXSemanticError(\n                        message=f'Unknown object",
    "                    line, col = self.parser.metamodel._parser_blueprint.pos_to_linecol(crossref.position)\n                    raise TextXSemanticError(\n                        message=f'Unknown object",
    "unknown-object errors located with the blueprint parser")
mut("m27", ["C28"], "textx/model.py",
    "                    filename=e.parser.file_name,\n                    context=e.context,\n                    expected_rules=e.rules,",
    "                    filename=None,\n                    context=e.context,\n                    expected_rules=e.rules,",
    "syntax errors without filename")
mut("m41", ["C28"], "textx/model.py",
    "                            filename = m._tx_filename\n",
    "                            filename = model._tx_filename\n",
    "unresolvable-reference errors name the main file")
# ---------------- W5
mut("m28", ["C26"], "textx/registration.py",
    "    if language_desc.name.lower() in languages:",
    "    if language_desc.name in languages:",
    "duplicate check is case sensitive")
mut("m29", ["C26"], "textx/registration.py",
    "    global languages, metamodels\n    languages = None\n    metamodels = {}",
    "    global languages, metamodels\n    languages = None",
    "clear does not reset the metamodel cache")
mut("m30", ["C26"], "textx/registration.py",
    "    if language_name not in metamodels or kwargs:",
    "    if language_name not in metamodels:",
    "kwargs ignored once a metamodel is cached")
mut("m42", ["C26"], "textx/registration.py",
    "            generators_for_language = generators[\"any\"]\n            return generators_for_language[target_name]",
    "            generators_for_language = generators[\"any\"]\n            return next(iter(generators_for_language.values()))",
    "'any' fallback returns the first generator regardless of the target")
mut("m43", ["C26"], "textx/registration.py",
    "    lang_gens = generators.setdefault(generator_desc.language.lower(), {})",
    "    lang_gens = generators.setdefault(generator_desc.language, {})",
    "generator language key not case folded")
# ---------------- W6
mut("m31", ["C31"], "textx/generators.py",
    "            with suppress(OSError):\n                os.remove(output_file)\n",
    "            pass\n",
    "partial output no longer removed")
mut("m44", ["C31"], "textx/generators.py",
    "        except:  # noqa\n",
    "        except ValueError:  # noqa\n",
    "cleanup only for ValueError")

# m12 is a placeholder that has no effect: drop it
M[:] = [m for m in M if m[0] != "m12"]


def main():
    os.makedirs(OUT, exist_ok=True)
    cat = {}
    bad = 0
    for mid, props, file, old, new, note in M:
        src = open(os.path.join(REPO, file)).read()
        if src.count(old) != 1:
            print(f"!! {mid}: anchor found {src.count(old)} times in {file}")
            bad += 1
            continue
        dst = src.replace(old, new)
        diff = "".join(difflib.unified_diff(src.splitlines(True), dst.splitlines(True), "a/" + file, "b/" + file))
        with open(os.path.join(OUT, mid + ".patch"), "w") as f:
            f.write(diff)
        cat[mid] = {"properties": props, "file": file, "note": note}
    with open(os.path.join(OUT, "catalogue.json"), "w") as f:
        json.dump(cat, f, indent=1, sort_keys=True)
    print(f"{len(cat)} mutants written, {bad} anchors failed")
    return 1 if bad else 0


if __name__ == "__main__":
    sys.exit(main())
